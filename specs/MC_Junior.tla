------------------------------ MODULE MC_Junior ------------------------------
(* Model run for C11 / C05: the reference tables are ordered, every entry is    *)
(* reachable in the reference, and the reference functions are monotone.        *)
EXTENDS JuniorScoring
VARIABLES sys, k
\* two levels below one initial state, so that the per-table checks are spread over all workers
All == {<<"tyrving", i>> : i \in DOMAIN TyKeys} \cup {<<"qkids", i>> : i \in DOMAIN QkKeys}
       \cup {<<"sportshall", i>> : i \in DOMAIN ShKeys} \cup {<<"bulgarian", i>> : i \in DOMAIN BgKeys}
Init == sys = "root" /\ k = 0
Next == \/ sys = "root" /\ sys' = "group" /\ k' \in 0..15
        \/ sys = "group" /\ \E x \in All : (x[2] % 16 = k) /\ sys' = x[1] /\ k' = x[2]
Spec == Init /\ [][Next]_<<sys, k>>

MonoOn(f(_), S, up) == \A c \in S : IF up THEN f(c) <= f(c + 1) ELSE f(c) >= f(c + 1)
TyrvingMonotone ==
    sys # "tyrving" \/
    LET t == TyTab[k] IN \A i \in DOMAIN t.l0 :
        LET age == t.y0 + i - 1
            b == t.l0[i]
            span == IF t.kind = "race" THEN (IF t.dist <= 500 THEN 1500 ELSE 15000) ELSE 3000
            lo == IF b - span < 0 THEN 0 ELSE b - span
            S == {lo + j * (IF span > 3000 THEN 7 ELSE 1) : j \in 0..((2 * span) \div (IF span > 3000 THEN 7 ELSE 1))}
        IN /\ MonoOn(LAMBDA c : TyrvingT(t, age, c, FALSE), S, t.kind # "race")
           /\ TyrvingT(t, age, b, FALSE) = 1000                                            \* the base mark is worth 1000
           /\ t.kind = "race" => \A c \in S : TyrvingT(t, age, c, TRUE) <= TyrvingT(t, age, c, FALSE)   \* hand timing never helps
QkidsMonotone ==
    sys # "qkids" \/ LET t == QkTab[k] IN
       /\ MonoOn(LAMBDA c : QkidsT(t, c), 0..(t.base + 100 * t.step + 200), ~t.run)
       /\ QkidsT(t, t.base) = 10
SportshallOrderedAndReachable ==
    sys # "sportshall" \/ LET t == ShTab[k] IN
       /\ MonoOn(LAMBDA c : SportshallT(t, c), 0..(t.thr[Len(t.thr)] + 500), t.high)
\* (ShOrdered / reachability of every row are *not* theorems: the published 800 m, JT ... columns
\*  repeat thresholds; they are checked on the live table as findings, see Trace_Junior)
BulgarianOrderedAndReachable ==
    sys # "bulgarian" \/ LET t == BgTab[k] IN
       /\ BgOrdered(t)
       /\ MonoOn(LAMBDA c : BulgarianT(t, c), (t.lo - 50)..(t.hi + 50), ~t.timed)
       /\ \A c \in t.lo..t.hi : BulgarianT(t, c) = t.pts[c - t.lo + 1]
=============================================================================
