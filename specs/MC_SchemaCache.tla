--------------------------- MODULE MC_SchemaCache ---------------------------
(* All histories over an abstract alphabet: two caches, keys whose ground     *)
(* truth is given by their first letter (v.. valid, i.. invalid, b.. broken   *)
(* schema file).                                                              *)
EXTENDS SchemaCache, Json
CONSTANTS KeySet,      \* e.g. {"v1","v2","i1","i2"}
          MaxLen,      \* cache limit (small, so that eviction is exercised)
          MaxHist,     \* history length bound
          AsWas        \* TRUE: model the pre-fix code (the property must then fail)
VARIABLES sv, va, hist, last

FreshOf(k) == IF k \in {"v1", "v2", "v3"} THEN "valid" ELSE IF k \in {"b1", "b2"} THEN "broken" ELSE "invalid"
V(c, k, ef) == IF AsWas THEN ValidateAsWas(c, k, ef, FreshOf(k), MaxLen) ELSE Validate(c, k, ef, FreshOf(k), MaxLen)

Init == sv = <<>> /\ va = <<>> /\ hist = <<>> /\ last = [fn |-> "init", k |-> "", ef |-> FALSE, out |-> "True"]
Next == /\ Len(hist) < MaxHist
        /\ \E fn \in {"sv", "va"}, k \in KeySet, ef \in BOOLEAN :
             /\ (fn = "sv" => FreshOf(k) # "broken")          \* only document validation meets a schema file that is broken
             /\ LET r == V(IF fn = "sv" THEN sv ELSE va, k, ef) IN
                  /\ sv' = IF fn = "sv" THEN r[2] ELSE sv
                  /\ va' = IF fn = "va" THEN r[2] ELSE va
                  /\ last' = [fn |-> fn, k |-> k, ef |-> ef, out |-> r[1]]
                  /\ hist' = Append(hist, [fn |-> fn, k |-> k, ef |-> ef])
Spec == Init /\ [][Next]_<<sv, va, hist, last>>

HistoryIndependent == last.fn = "init" \/ last.out = FreshOutcome(FreshOf(last.k), last.ef)
CacheBounded == Len(sv) <= MaxLen /\ Len(va) <= MaxLen
NoDuplicateKeys == \A c \in {sv, va} : \A i, j \in DOMAIN c : c[i][1] = c[j][1] => i = j
CachedTruth == \A c \in {sv, va} : \A i \in DOMAIN c : c[i][2] = (FreshOf(c[i][1]) = "valid")
EmitHist == Len(hist) = 0 \/ PrintT("@@" \o ToJson([hist |-> hist]))
=============================================================================
