------------------------------ MODULE HighJump ------------------------------
(***************************************************************************)
(* High jump / pole vault competition of athlib/highjump.py.               *)
(*                                                                         *)
(* Part 1 (mechanism) transcribes what the code does, one operator per     *)
(* public call, on a record `hj` that is exactly the projection of the     *)
(* public attributes.  Each operator returns <<outcome, hj'>> so the same  *)
(* text serves the exhaustive model, recursive replays and trace           *)
(* validation (where it is applied to the *observed* pre-state).           *)
(*                                                                         *)
(* Part 2 (rule level) states properties C02 / C03 / C08 from the cards    *)
(* alone - no flags - and is what the monitors use.                        *)
(*                                                                         *)
(* Encodings: bibs are strings; heights are integers (centimetres);        *)
(* a card is a sequence (one entry per height) of sequences of one-letter  *)
(* strings over {"o","x","-","r"}; `bidx` is 1-based, 0 = no clearance.    *)
(***************************************************************************)
EXTENDS Naturals, Integers, Sequences, FiniteSets, TLC

Letters == {"o", "x", "-", "r"}

Last(s) == s[Len(s)]
Has(a, c) == \E i \in DOMAIN a : a[i] = c
CountX(a) == Cardinality({i \in DOMAIN a : a[i] = "x"})

RECURSIVE SumSeq(_)
SumSeq(s) == IF s = <<>> THEN 0 ELSE Head(s) + SumSeq(Tail(s))

NewJumper(n) == [card |-> <<>>, best |-> 0, bidx |-> 0, elim |-> FALSE, dism |-> FALSE,
                 lim |-> 3, cf |-> 0, p |-> n, pub |-> 0]

\* A jumper registered with order = 'DQ' / 'DNS' carries the extra field dq (ordinary jumpers do not have the field, so
\* snapshots of competitions without such entries are unchanged).  The code refuses their trials while the competition
\* is running and reports the order as their place; they are never eliminated, so they stay in `remaining` for ever.
IsDQ(jr) == "dq" \in DOMAIN jr /\ jr.dq
NewDQ(n) == NewJumper(n) @@ [dq |-> TRUE]

\* `bar` is the public bar_height attribute (0 before the first height)
EmptyHJ == [state |-> "scheduled", heights |-> <<>>, bar |-> 0, order |-> <<>>, ranked |-> <<>>,
            j |-> <<>>, log |-> <<>>]

Bibs(hj) == DOMAIN hj.j
CurH(hj) == IF hj.heights = <<>> THEN 0 ELSE Last(hj.heights)
Entry(op, b, h) == [op |-> op, b |-> b, h |-> h]

(***************************************************************************)
(* Jumper-level helpers (class Jumper)                                     *)
(***************************************************************************)
HasRetired(jr) == Len(jr.card) > 0 /\ Len(Last(jr.card)) > 0 /\ Last(Last(jr.card)) = "r"

\* ranking_key as a 4-tuple; smaller is better.  -best is kept as best with reversed compare.
Grp(jr) == IF jr.elim THEN (IF jr.bidx = 0 THEN 3 ELSE 2) ELSE (IF jr.bidx = 0 THEN 1 ELSE 0)
FailAt(jr) == IF jr.bidx = 0 THEN 0 ELSE CountX(jr.card[jr.bidx])
FailUpTo(jr) == IF jr.bidx = 0 THEN 0
                ELSE SumSeq([i \in 1..jr.bidx |-> CountX(jr.card[i])])
Key(jr) == <<Grp(jr), jr.best, FailAt(jr), FailUpTo(jr)>>
KeyLT(k1, k2) ==
    \/ k1[1] < k2[1]
    \/ k1[1] = k2[1] /\ k1[2] > k2[2]
    \/ k1[1] = k2[1] /\ k1[2] = k2[2] /\ k1[3] < k2[3]
    \/ k1[1] = k2[1] /\ k1[2] = k2[2] /\ k1[3] = k2[3] /\ k1[4] < k2[4]

Pad(card, n) == IF Len(card) >= n THEN card ELSE card \o TLCEval([i \in 1..(n - Len(card)) |-> <<>>])

\* _set_jump_array: <<ok, jr'>> ; note the padding happens before the attempt-limit test.
SetJumpArray(jr, hc) ==
    IF jr.elim \/ jr.dism THEN <<FALSE, jr>>
    ELSE LET c == Pad(jr.card, hc)
             jr2 == [jr EXCEPT !.card = c]
         IN IF Len(Last(c)) > jr.lim - 1 THEN <<FALSE, jr2>> ELSE <<TRUE, jr2>>

AppendMark(jr, m) == [jr EXCEPT !.card[Len(jr.card)] = Append(@, m)]

JumperOp(jr, kind, h) ==
    CASE kind = "o" -> \* (after "fix: a clearance at a lowered jump-off bar overwrote the best height")
                       IF jr.bidx = 0 \/ h > jr.best
                       THEN [AppendMark(jr, "o") EXCEPT !.best = h, !.bidx = Len(jr.card), !.cf = 0, !.dism = TRUE]
                       ELSE [AppendMark(jr, "o") EXCEPT !.cf = 0, !.dism = TRUE]
      [] kind = "x" -> LET cf2 == jr.cf + 1 IN
                       IF cf2 >= jr.lim
                       THEN [AppendMark(jr, "x") EXCEPT !.cf = cf2, !.elim = TRUE, !.dism = TRUE]
                       ELSE [AppendMark(jr, "x") EXCEPT !.cf = cf2, !.dism = FALSE]
      [] kind = "-" -> [AppendMark(jr, "-") EXCEPT !.dism = TRUE]
      [] kind = "r" -> [AppendMark(jr, "r") EXCEPT !.elim = TRUE, !.dism = TRUE]

(***************************************************************************)
(* _rankj / _rank                                                          *)
(***************************************************************************)
PosIn(seq, b) == CHOOSE i \in DOMAIN seq : seq[i] = b

RankJ(hj) ==
    LET J == hj.j
        K == TLCEval([b \in DOMAIN J |-> Key(J[b])])                   \* every key once (23-athlete fields)
        P == TLCEval([i \in DOMAIN hj.ranked |-> hj.ranked[i]])
        pos == TLCEval([b \in DOMAIN J |-> PosIn(P, b)])
        Before(c, b) == KeyLT(K[c], K[b]) \/ (K[c] = K[b] /\ pos[c] < pos[b])
        newpos == TLCEval([b \in DOMAIN J |-> 1 + Cardinality({c \in DOMAIN J : Before(c, b)})])
        ranked2 == TLCEval([i \in 1..Len(hj.ranked) |-> CHOOSE b \in DOMAIN J : newpos[b] = i])
        place == TLCEval([b \in DOMAIN J |-> 1 + Cardinality({c \in DOMAIN J : KeyLT(K[c], K[b])})])
    IN [hj EXCEPT !.ranked = ranked2, !.j = TLCEval([b \in DOMAIN J |-> [J[b] EXCEPT !.p = place[b],
                                                          !.pub = IF IsDQ(J[b]) THEN -1 ELSE IF J[b].bidx = 0 THEN 0 ELSE place[b]]])]

Reinstate(jr) == [jr EXCEPT !.elim = FALSE, !.lim = 1, !.cf = 0]

Rank(hj0) ==
    LET hj == TLCEval(RankJ(hj0))
        J == hj.j
        rk == hj.ranked
        rem == {b \in DOMAIN J : ~J[b].elim}
    IN IF Len(rk) = 0 THEN hj
       ELSE IF rem = {} THEN
            IF Len(rk) > 1 /\ J[rk[2]].p = 1 THEN
                \* (after "fix: a jump-off participant beaten at an earlier jump-off height was re-instated"): in a jump-off
                \* only those who took part at the current height come back; the places are then worked out again, so
                \* that the ones left behind (still eliminated) rank below those still in
                LET tied == {b \in DOMAIN J : J[b].p = 1}
                    injo == hj.state = "jumpoff"
                    back == {b \in tied : ~HasRetired(J[b]) /\ ~(injo /\ Len(J[b].card) < Len(hj.heights))}
                    hj2 == [hj EXCEPT !.j = TLCEval([b \in DOMAIN J |-> IF b \in back THEN Reinstate(J[b]) ELSE J[b]]),
                                      !.state = IF back # {} THEN "jumpoff" ELSE "drawn"]
                IN IF injo THEN TLCEval(RankJ(hj2)) ELSE hj2
            ELSE IF hj.state = "jumpoff" /\ ~HasRetired(J[rk[1]]) THEN
                [hj EXCEPT !.j[rk[1]] = Reinstate(@)]
            ELSE [hj EXCEPT !.state = "finished"]
       ELSE IF /\ Cardinality(rem) = 1
               /\ LET r == CHOOSE b \in rem : TRUE IN
                     /\ Len(J[r].card) = Len(hj.heights)
                     /\ Has(Last(J[r].card), "o")
            THEN [hj EXCEPT !.state = IF hj.state \in {"started", "won"} THEN "won" ELSE "finished"]
       ELSE hj

(***************************************************************************)
(* Public calls.  Outcomes: "ok", "rule" (RuleViolation), "key" (KeyError  *)
(* for an unknown bib), "assert" (AssertionError: trial with no height).   *)
(***************************************************************************)
AddJumperQ(hj, b, dq) ==
    IF hj.state # "scheduled" THEN <<"rule", hj>>
    ELSE IF b \in DOMAIN hj.j THEN <<"rule", hj>>
    ELSE <<"ok", [hj EXCEPT !.j = TLCEval([c \in DOMAIN hj.j \cup {b} |->
                                      IF c = b THEN (IF dq THEN [NewDQ(Len(hj.order) + 1) EXCEPT !.pub = -1] ELSE NewJumper(Len(hj.order) + 1))
                                      ELSE hj.j[c]]),
                            !.order = Append(@, b), !.ranked = Append(@, b),
                            !.log = Append(@, Entry(IF dq THEN "addq" ELSE "add", b, 0))]>>
AddJumper(hj, b) == AddJumperQ(hj, b, FALSE)

\* set_bar_height (after "fix: test the bar before starting the competition"): the state only
\* becomes 'started' when the height is accepted.
SetBar(hj, h) ==
    IF hj.state \notin {"scheduled", "started", "jumpoff", "won"} THEN <<"rule", hj>>
    ELSE IF hj.state # "jumpoff" /\ CurH(hj) >= h THEN <<"rule", hj>>
    ELSE <<"ok", [hj EXCEPT !.state = IF @ = "scheduled" THEN "started" ELSE @,
                            !.j = TLCEval([b \in DOMAIN hj.j |-> IF hj.j[b].elim THEN hj.j[b]
                                                       ELSE [hj.j[b] EXCEPT !.dism = FALSE]]),
                            !.heights = Append(@, h), !.bar = h,
                            !.log = Append(@, Entry("bar", "", h))]>>

CheckStarted(hj, b) ==   \* TRUE = may proceed
    IF hj.state \in {"started", "jumpoff"} THEN ~IsDQ(hj.j[b])
    ELSE IF hj.state \in {"won", "drawn"} THEN hj.j[b].p = 1
    ELSE FALSE

Trial(hj, kind, b) ==
    IF b \notin DOMAIN hj.j THEN <<"key", hj>>
    ELSE IF ~CheckStarted(hj, b) THEN <<"rule", hj>>
    ELSE IF Len(hj.heights) = 0 THEN <<"assert", hj>>
    ELSE LET sja == SetJumpArray(hj.j[b], Len(hj.heights)) IN
         IF ~sja[1] THEN <<"rule", [hj EXCEPT !.j[b] = sja[2]]>>
         ELSE <<"ok", Rank([hj EXCEPT !.j[b] = JumperOp(sja[2], kind, CurH(hj)),
                                      !.log = Append(@, Entry(kind, b, 0))])>>

Do(hj, c) ==
    CASE c.op = "add" -> AddJumper(hj, c.b)
      [] c.op = "addq" -> AddJumperQ(hj, c.b, TRUE)
      [] c.op = "bar" -> SetBar(hj, c.h)
      [] OTHER        -> Trial(hj, c.op, c.b)

\* from_actions: replay a log on a fresh competition (refused entries are skipped here; the
\* real method would raise, which the conformance harness reports).
RECURSIVE FromActions(_, _)
FromActions(hj, log) == IF log = <<>> THEN hj ELSE FromActions(TLCEval(Do(hj, Head(log))[2]), Tail(log))

(***************************************************************************)
(* Card export / import (to_matrix / from_matrix)                          *)
(***************************************************************************)
\* to_matrix keeps the raw attempt strings, rows sorted by bib.  from_matrix replays, per
\* height, attempt index 1..3 outer and athletes (in `order`) inner; '-' is ignored.
MarkAt(card, hi, a) == IF hi <= Len(card) /\ a <= Len(card[hi]) THEN card[hi][a] ELSE ""

RECURSIVE ReplayCells(_, _, _, _, _)
\* cells: sequence of <<bib>> in jumping order; walks athletes for attempt index a at height hi
ReplayCells(hj, cards, hi, a, who) ==
    IF who = <<>> THEN hj
    ELSE LET b == Head(who)
             m == MarkAt(cards[b], hi, a)
             hj2 == IF m \in {"o", "x", "r"} THEN Do(hj, Entry(m, b, 0))[2] ELSE hj
         IN ReplayCells(TLCEval(hj2), cards, hi, a, Tail(who))

RECURSIVE ReplayHeights(_, _, _, _, _)
ReplayHeights(hj, cards, heights, hi, who) ==
    IF hi > Len(heights) THEN hj
    ELSE LET h0 == TLCEval(Do(hj, Entry("bar", "", heights[hi]))[2])
             h1 == TLCEval(ReplayCells(h0, cards, hi, 1, who))
             h2 == TLCEval(ReplayCells(h1, cards, hi, 2, who))
             h3 == ReplayCells(h2, cards, hi, 3, who)
         IN ReplayHeights(TLCEval(h3), cards, heights, hi + 1, who)

RECURSIVE AddAll(_, _)
AddAll(hj, who) == IF who = <<>> THEN hj ELSE AddAll(TLCEval(Do(hj, Entry("add", Head(who), 0))[2]), Tail(who))

\* from_matrix(to_matrix(hj)): `who` is the registered bibs sorted as to_matrix sorts its rows
RoundTrip(hj, who) ==
    ReplayHeights(AddAll(EmptyHJ, who), [b \in DOMAIN hj.j |-> hj.j[b].card], hj.heights, 1, who)

(***************************************************************************)
(***************************************************************************)
(* Part 2 - the rule level: everything below is computed from the          *)
(* observable cards and heights only (no elim / dism / lim / cf flags).    *)
(***************************************************************************)
(***************************************************************************)
Min(a, b) == IF a < b THEN a ELSE b
Max(a, b) == IF a > b THEN a ELSE b
Prefix(card, n) == SubSeq(card, 1, Min(n, Len(card)))
MarksAt(card, k) == IF k >= 1 /\ k <= Len(card) THEN card[k] ELSE <<>>

RECURSIVE Flat(_)
Flat(card) == IF card = <<>> THEN <<>> ELSE Head(card) \o Flat(Tail(card))

\* current run of failures: 'o' resets, passes and skipped heights do not
RECURSIVE ConsecF(_, _)
ConsecF(marks, acc) == IF marks = <<>> THEN acc
                       ELSE ConsecF(Tail(marks), TLCEval(IF Head(marks) = "o" THEN 0
                                                 ELSE IF Head(marks) = "x" THEN acc + 1 ELSE acc))
Consec(card) == ConsecF(Flat(card), 0)
RetiredC(card) == Has(Flat(card), "r")
ClearedC(card) == Has(Flat(card), "o")
OutBy(card, n) == RetiredC(Prefix(card, n)) \/ Consec(Prefix(card, n)) >= 3

Cards(hj) == [b \in DOMAIN hj.j |-> hj.j[b].card]
NH(hj) == Len(hj.heights)

\* the field: DQ / DNS entries take no part (rule level: the competition is the one among the others)
Field(hj) == {b \in DOMAIN hj.j : ~IsDQ(hj.j[b])}
AllOutBy(hj, n) == Field(hj) # {} /\ \A b \in Field(hj) : OutBy(hj.j[b].card, n)
\* number of regular heights: the first column by which everybody is out (0 = still regular)
NRegR(hj) == IF \E n \in 1..NH(hj) : AllOutBy(hj, n)
             THEN CHOOSE n \in 1..NH(hj) : AllOutBy(hj, n) /\ \A m \in 1..(n - 1) : ~AllOutBy(hj, m)
             ELSE 0

\* countback key from the first n columns: <<cleared?, best height, failures at it, failures up to it>>
BestIdx(hj, card, n) ==
    LET C == {i \in 1..Min(n, Len(card)) : Has(card[i], "o")} IN
    IF C = {} THEN 0 ELSE CHOOSE i \in C : \A k \in C : hj.heights[k] <= hj.heights[i] /\ (hj.heights[k] = hj.heights[i] => k >= i)
CBKey(hj, card, n) ==
    LET i == BestIdx(hj, card, n) IN
    IF i = 0 THEN <<0, 0, 0, 0>>
    ELSE <<1, hj.heights[i], CountX(card[i]), SumSeq([k \in 1..i |-> CountX(card[k])])>>
CBBetter(k1, k2) ==  \* k1 strictly better than k2
    \/ k1[1] > k2[1]
    \/ k1[1] = k2[1] /\ k1[2] > k2[2]
    \/ k1[1] = k2[1] /\ k1[2] = k2[2] /\ k1[3] < k2[3]
    \/ k1[1] = k2[1] /\ k1[2] = k2[2] /\ k1[3] = k2[3] /\ k1[4] < k2[4]
\* place from the first n columns; 0 = unplaced (no clearance)
CBKeys(hj, n) == TLCEval([c \in DOMAIN hj.j |-> CBKey(hj, hj.j[c].card, n)])
CBPlaces(hj, n) ==
    LET K == CBKeys(hj, n) IN
    TLCEval([b \in DOMAIN hj.j |-> IF K[b][1] = 0 THEN 0
                                   ELSE 1 + Cardinality({c \in DOMAIN hj.j : CBBetter(K[c], K[b])})])
CBPlace(hj, b, n) == CBPlaces(hj, n)[b]
TiedFirst(hj, n) == LET P == CBPlaces(hj, n) IN {b \in DOMAIN hj.j : P[b] = 1}

\* Jump-off participants still in after column k (k >= nreg).
RECURSIVE Active(_, _, _)
Active(hj, nreg, k) ==
    IF k <= nreg THEN {b \in TiedFirst(hj, nreg) : ~RetiredC(Prefix(hj.j[b].card, nreg))}
    ELSE LET A == Active(hj, nreg, k - 1)
             gone == {b \in A : Has(MarksAt(hj.j[b].card, k), "x") \/ Has(MarksAt(hj.j[b].card, k), "r")}
         IN IF gone = A THEN {b \in A : ~Has(MarksAt(hj.j[b].card, k), "r")}   \* nobody cleared: all back in
            ELSE A \ gone

\* a completed jump-off column in which an active participant neither attempted nor retired
IllFormedJO(hj, nreg) ==
    \E k \in (nreg + 1)..(NH(hj) - 1) : \E b \in Active(hj, nreg, k - 1) :
        LET m == MarksAt(hj.j[b].card, k) IN m = <<>> \/ Has(m, "-")
\* same, but also counting the current column (used for C03, which needs every column complete)
IncompleteJO(hj, nreg) ==
    \E k \in (nreg + 1)..NH(hj) : \E b \in Active(hj, nreg, k - 1) :
        LET m == MarksAt(hj.j[b].card, k) IN m = <<>> \/ Has(m, "-")

\* rule-level phase
NobodyCleared(hj, n) == \A b \in DOMAIN hj.j : ~ClearedC(Prefix(hj.j[b].card, n))
JOWinner(hj, nreg, k) ==   \* somebody won the jump-off at column k
    LET A == Active(hj, nreg, k) IN Cardinality(A) = 1 /\ \A b \in A : Has(MarksAt(hj.j[b].card, k), "o")
RPhaseN(hj, n) ==
    IF NH(hj) = 0 THEN "scheduled"
    ELSE IF n = 0 THEN "regular"
    ELSE IF NobodyCleared(hj, n) THEN "nomark"            \* lenient region (R4)
    ELSE IF Cardinality(TiedFirst(hj, n)) <= 1 THEN "finished"
    ELSE IF Active(hj, n, n) = {} THEN "drawn"
    ELSE IF \E k \in (n + 1)..NH(hj) : JOWinner(hj, n, k) THEN "finished"
    ELSE IF \E k \in (n + 1)..NH(hj) : Active(hj, n, k) = {} THEN "drawn"
    ELSE "jumpoff"
RPhase(hj) == RPhaseN(hj, NRegR(hj))

\* everything the acceptance rule needs, computed once per state
RuleCtx(hj) ==
    LET n == NRegR(hj)
        ph == RPhaseN(hj, n)
    IN [nr |-> n, ph |-> ph,
        act |-> IF ph = "jumpoff" /\ NH(hj) > n THEN Active(hj, n, NH(hj) - 1) ELSE {},
        ill |-> n > 0 /\ IllFormedJO(hj, n)]

RuleAllowsC(hj, ctx, c) ==
    CASE c.op \in {"add", "addq"} -> NH(hj) = 0 /\ c.b \notin DOMAIN hj.j
      [] c.op = "bar" -> \/ ctx.ph \in {"scheduled", "regular"} /\ c.h > CurH(hj)
                         \/ ctx.ph = "jumpoff"
      [] OTHER ->
           /\ c.b \in DOMAIN hj.j
           /\ ~IsDQ(hj.j[c.b])
           /\ LET card == hj.j[c.b].card
                  cur == MarksAt(card, NH(hj))
              IN \/ /\ ctx.ph = "regular"
                    /\ ~OutBy(card, NH(hj))
                    /\ ~(Has(cur, "o") \/ Has(cur, "-") \/ Has(cur, "r"))
                    /\ Len(cur) < 3
                 \/ /\ ctx.ph = "jumpoff"
                    /\ NH(hj) > ctx.nr
                    /\ c.b \in ctx.act
                    /\ cur = <<>>
RuleAllows(hj, c) == RuleAllowsC(hj, RuleCtx(hj), c)

\* acceptance is "don't care" (R4) in these regions
LenientC(hj, ctx, c) ==
    \/ ctx.ph = "nomark"
    \/ c.op \notin {"add", "addq", "bar"} /\ c.b \notin DOMAIN hj.j
    \/ ctx.ill
Lenient(hj, c) == LenientC(hj, RuleCtx(hj), c)

StateRank(s) == CASE s = "scheduled" -> 0 [] s = "started" -> 1 [] s \in {"jumpoff", "won"} -> 2
                  [] s \in {"finished", "drawn"} -> 3 [] OTHER -> 99

\* the observables the properties name
PublicPlace(jr) == jr.pub   \* the public `place` attribute; 0 stands for the empty string
Obs(hj) == [state |-> hj.state, heights |-> hj.heights, bar |-> hj.bar,
            cards |-> [b \in DOMAIN hj.j |-> hj.j[b].card],
            bests |-> [b \in DOMAIN hj.j |-> hj.j[b].best],
            places |-> [b \in DOMAIN hj.j |-> PublicPlace(hj.j[b])],
            log |-> hj.log]

(***************************************************************************)
(* C03 - placings                                                          *)
(***************************************************************************)
MaxCleared(hj, card) ==
    LET C == {i \in 1..Len(card) : Has(card[i], "o")} IN
    IF C = {} THEN 0 ELSE hj.heights[CHOOSE i \in C : \A k \in C : hj.heights[k] <= hj.heights[i]]
BestIsMaxCleared(hj) == \A b \in DOMAIN hj.j : hj.j[b].best = MaxCleared(hj, hj.j[b].card)

\* standard competition ranking: place = 1 + number of athletes placed strictly better
\* (a place <= 0 is no place: 0 = no clearance, -1 = DQ / DNS)
StdRanking(P) == \A b \in DOMAIN P : P[b] > 0 =>
                     P[b] = 1 + Cardinality({c \in DOMAIN P : P[c] > 0 /\ P[c] < P[b]})

Terminal(hj) == hj.state \in {"finished", "won", "drawn"}

\* returns the set of failed clause names at a terminal, well-formed state
PlacesFail(hj) ==
    LET nr == NRegR(hj)
        n == IF nr = 0 THEN NH(hj) ELSE nr
        P == [b \in DOMAIN hj.j |-> PublicPlace(hj.j[b])]
        CB == CBPlaces(hj, n)
        T == TiedFirst(hj, n)
        ph == RPhase(hj)
        S == IF nr = 0 THEN {} ELSE Active(hj, nr, NH(hj))
    IN  (IF StdRanking(P) THEN {} ELSE {"not_standard_ranking"})
        \cup (IF \A b \in DOMAIN P : IF IsDQ(hj.j[b]) THEN P[b] = -1 ELSE (P[b] = 0) = (CB[b] = 0 /\ ~ClearedC(hj.j[b].card)) THEN {} ELSE {"unplaced_iff_no_clearance"})
        \cup (IF hj.state = "won" /\ Cardinality(T) # 1 THEN {"won_without_single_leader"} ELSE {})
        \cup (IF hj.state = "finished" /\ Cardinality({b \in DOMAIN P : P[b] = 1}) > 1 THEN {"tie_for_first_left_standing"} ELSE {})
        \cup (IF Cardinality(T) <= 1 /\ \E b \in Field(hj) : P[b] # CB[b] THEN {"places_differ_from_countback"} ELSE {})
        \* drawn: the participants who were still in when the last of them retired share first place,
        \* members of the tie beaten earlier in the jump-off stay ahead of everybody who was not tied
        \cup (IF Cardinality(T) > 1 /\ hj.state = "drawn" THEN
                 LET ks == {k \in nr..NH(hj) : Active(hj, nr, k) = {}}
                     kd == IF ks = {} THEN nr ELSE CHOOSE k \in ks : \A q \in ks : k <= q
                     D == IF kd = nr THEN T ELSE Active(hj, nr, kd - 1)
                 IN (IF \A b \in D : P[b] = 1 THEN {} ELSE {"drawn_participants_do_not_share_first"})
                    \cup (IF \A b \in T : P[b] >= 1 /\ P[b] <= Cardinality(T) THEN {} ELSE {"jumpoff_member_outside_top"})
                    \cup (IF \A b \in T : \A c \in DOMAIN P \ T : P[c] <= 0 \/ P[b] < P[c] THEN {} ELSE {"jumpoff_member_behind_untied"})
                    \cup (IF \A c \in DOMAIN P \ T : P[c] = CB[c] THEN {} ELSE {"untied_place_changed"})
              ELSE {})
        \cup (IF Cardinality(T) > 1 /\ hj.state = "finished" THEN
                 (IF Cardinality(S) = 1 /\ \A s \in S : P[s] = 1 THEN {} ELSE {"jumpoff_survivor_not_first"})
                 \cup (IF \A b \in T : P[b] >= 1 /\ P[b] <= Cardinality(T) THEN {} ELSE {"jumpoff_member_outside_top"})
                 \cup (IF \A b \in T : \A c \in DOMAIN P \ T : P[c] <= 0 \/ P[b] < P[c] THEN {} ELSE {"jumpoff_member_behind_untied"})
                 \cup (IF \A c \in DOMAIN P \ T : P[c] = CB[c] THEN {} ELSE {"untied_place_changed"})
              ELSE {})

(***************************************************************************)
(* Former finding KF-HJ1 (repaired, see known_findings.json "fixed"), as a  *)
(* predicate: a jump-off participant who was beaten at an earlier jump-off *)
(* height (out of Active) is back in the competition: not eliminated any   *)
(* more, or has a later mark on the card.  Kept as a monitor: should the   *)
(* defect return, every clause failure after such a state carries the      *)
(* signature KF-HJ1 - which no longer matches a listed finding.            *)
(***************************************************************************)
KF_BeatenReinstated(h) ==
    LET nr == NRegR(h) IN
    /\ nr > 0
    /\ ~NobodyCleared(h, nr)
    /\ \E b \in TiedFirst(h, nr) : \E k \in (nr + 1)..NH(h) :
          /\ b \in Active(h, nr, k - 1) /\ b \notin Active(h, nr, k)
          /\ ~RetiredC(h.j[b].card)
          /\ (~h.j[b].elim \/ \E q \in (k + 1)..NH(h) : MarksAt(h.j[b].card, q) # <<>>)

KF_JumpOffPass(h) == \E b \in DOMAIN h.j : \E k \in DOMAIN h.j[b].card :
                        NRegR(h) > 0 /\ k > NRegR(h) /\ Has(h.j[b].card[k], "-")

\* C03 applies to well-formed histories
WellFormed(hj) == LET nr == NRegR(hj) IN nr = 0 \/ ~IncompleteJO(hj, nr)
(***************************************************************************)
(* Clause sets: each operator returns the set of names of the property     *)
(* clauses that fail (empty = fine).  Used by the exhaustive model and by  *)
(* trace validation alike.                                                 *)
(***************************************************************************)
AllBibs == <<"A", "B", "C", "D">>      \* alphabetical, the order in which to_matrix writes rows
Who(h) == SelectSeq(AllBibs, LAMBDA b : b \in DOMAIN h.j)

\* ---- C02 clauses of one step (shared with Trace_HighJump) ----
CardShapeOK(h) ==
    LET nr == NRegR(h) IN
    \A b \in DOMAIN h.j : \A k \in DOMAIN h.j[b].card :
        LET m == h.j[b].card[k] IN
        /\ Len(m) <= 3
        /\ (nr > 0 /\ k > nr => Len(m) <= 1)
        /\ \A i \in 1..(Len(m) - 1) : m[i] = "x"          \* o, -, r end the athlete's turn at a height

StateVsCards(h) ==
    LET ph == RPhase(h) IN
    \/ ph = "nomark"
    \/ NRegR(h) > 0 /\ IllFormedJO(h, NRegR(h))
    \/ /\ (ph = "scheduled") = (h.state = "scheduled")
       /\ ph = "regular" => h.state \in {"started", "won"}
       /\ ph \in {"finished", "drawn", "jumpoff"} => h.state = ph

StepClausesC(pre, ctx, c, out, post) ==
    (IF LenientC(pre, ctx, c) \/ ((out = "ok") = RuleAllowsC(pre, ctx, c)) THEN {} ELSE
        {IF out = "ok" THEN "accepted_against_rule" ELSE "refused_against_rule"})
    \cup (IF out = "ok" \/ Obs(post) = Obs(pre) THEN {} ELSE {"refusal_changed_observable"})
    \cup (IF out \in {"ok", "rule"} \/ (out = "key" /\ c.b \notin DOMAIN pre.j) THEN {} ELSE {"refusal_not_rule_violation"})
    \cup (IF StateRank(post.state) > StateRank(pre.state) \/ post.state = pre.state THEN {} ELSE {"state_regressed"})
    \cup (IF pre.state \in {"finished", "drawn"} /\ out = "ok" THEN {"accepted_after_end"} ELSE {})
    \cup (IF out # "ok" \/ CardShapeOK(post) THEN {} ELSE {"card_shape"})
    \cup (IF out # "ok" \/ StateVsCards(post) THEN {} ELSE {"state_vs_cards"})
StepClauses(pre, c, out, post) == StepClausesC(pre, RuleCtx(pre), c, out, post)

\* ---- C03 clauses of a state ----
StateClauses(h) ==
    (IF BestIsMaxCleared(h) THEN {} ELSE {"best_is_not_max_cleared"})
    \cup (IF Terminal(h) /\ WellFormed(h) /\ RPhase(h) # "nomark" THEN PlacesFail(h) ELSE {})

\* ---- C08 clauses of a state ----
\* ---- the derived, read-only views of highjump.py: trials (a function of the action log: every trial with the bar
\* height in force when it was taken), remaining / eliminated athletes in jumping order, is_finished, is_running
RECURSIVE TrialsF(_, _)
TrialsF(log, bar) ==
    IF log = <<>> THEN <<>>
    ELSE LET e == Head(log) IN
         IF e.op = "bar" THEN TrialsF(Tail(log), e.h)
         ELSE IF e.op \in Letters THEN <<<<e.b, bar, e.op>>>> \o TrialsF(Tail(log), bar)
         ELSE TrialsF(Tail(log), bar)
Views(h) == [ok |-> TRUE, trials |-> TLCEval(TrialsF(h.log, 0)),
             rem |-> SelectSeq(h.order, LAMBDA b : ~h.j[b].elim), eli |-> SelectSeq(h.order, LAMBDA b : h.j[b].elim),
             fin |-> h.state \in {"finished", "won", "drawn"}, run |-> h.state \in {"started", "jumpoff"}]
\* every recorded trial was taken at a height that had been set, by a registered athlete, and the trials of one athlete
\* spell that athlete's card
TrialsSpellCards(h) ==
    LET T == TrialsF(h.log, 0) IN
    \A b \in DOMAIN h.j : SelectSeq([i \in DOMAIN T |-> IF T[i][1] = b THEN T[i][3] ELSE ""], LAMBDA m : m # "") = Flat(h.j[b].card)

ObsNoLog(h) == [Obs(h) EXCEPT !.log = <<>>]
\* explicit pass marks aside: erase '-' and then trailing empty cells
StripPass(card) ==
    LET c1 == [k \in DOMAIN card |-> SelectSeq(card[k], LAMBDA m : m # "-")]
        n == IF \E k \in DOMAIN c1 : c1[k] # <<>> THEN CHOOSE k \in DOMAIN c1 : c1[k] # <<>> /\ \A q \in DOMAIN c1 : q > k => c1[q] = <<>> ELSE 0
    IN SubSeq(c1, 1, n)
ObsRT(h) == [ObsNoLog(h) EXCEPT !.cards = [b \in DOMAIN h.j |-> StripPass(h.j[b].card)]]
ReplayClauses(h) ==
    (IF Obs(FromActions(EmptyHJ, h.log)) = Obs(h) THEN {} ELSE {"log_replay_differs"})
    \cup (IF ObsRT(RoundTrip(h, Who(h))) = ObsRT(h) THEN {} ELSE {"card_round_trip_differs"})

=============================================================================
