----------------------------- MODULE Trace_Junior -----------------------------
(* C11 / C05 / C18 (junior scoring): observations of the real scoring functions.  *)
(*  k = "seg":  q = [sys, key, age, manual], segs = <<lo, hi, val>> runs of equal   *)
(*              outcome over an ascending sequence of centi-marks for one input     *)
(*              form; val = points, -1 = refused (ValueError / KeyError /           *)
(*              AssertionError), -100 = any other exception, -200 = not an integer  *)
(*  k = "hand": Tyrving hand-timed text against the same figure electronic:         *)
(*              segs = <<lo, hi, hand value, electronic value>>                     *)
(*  k = "table": the live table: rows = <<points, threshold, observed score>>       *)
EXTENDS JuniorScoring, Json, IOUtils
VARIABLES tid
Trace == ndJsonDeserialize(IOEnv.TRACE_FILE)
Report(kind, t, clauses, at) == PrintT("@@" \o ToJson([kind |-> kind, tid |-> t, clauses |-> clauses, at |-> at]))

SegFail(q, s) ==
    (IF Ref(q, s[1]) = s[3] /\ Ref(q, s[2]) = s[3] THEN {} ELSE {"points_differ_from_published_table"})
    \cup (IF s[3] >= -1 THEN {} ELSE {"raised_or_not_integer"})
    \cup (IF s[3] < 0 \/ Bounds(q, s[3]) THEN {} ELSE {"points_out_of_bounds"})
MonoFail(q, S) ==
    IF \A i \in 1..(Len(S) - 1) : (S[i][3] >= 0 /\ S[i + 1][3] >= 0) =>
          (IF HigherBetter(q) THEN S[i][3] <= S[i + 1][3] ELSE S[i][3] >= S[i + 1][3])
    THEN {} ELSE {"better_mark_scores_fewer_points"}
\* optional spellings (decimal comma): a function may refuse them; an accepted one scores what the mark it spells
\* scores - in particular never less than the next-worse mark does in its standard spelling
Worse(q, s) == IF HigherBetter(q) THEN s[1] - 1 ELSE s[2] + 1
OptFail(q, s) ==
    IF s[3] = -1 THEN {}
    ELSE SegFail(q, s) \cup (IF s[3] >= 0 /\ Worse(q, s) >= 0 /\ Ref(q, Worse(q, s)) > s[3] THEN {"better_mark_scores_fewer_points"} ELSE {})
First(bad) == CHOOSE i \in bad : \A j \in bad : i <= j
Viol(r) ==
    CASE r.k = "seg" ->
           IF ~Known(r.q) THEN <<IF \A i \in DOMAIN r.segs : r.segs[i][3] = -1 THEN {} ELSE {"scored_without_published_table"}, <<>>>>
           ELSE LET F(s) == IF "opt" \in DOMAIN r /\ r.opt THEN OptFail(r.q, s) ELSE SegFail(r.q, s)
                    bad == {i \in DOMAIN r.segs : F(r.segs[i]) # {}} IN
                <<UNION {F(r.segs[i]) : i \in bad} \cup MonoFail(r.q, r.segs),
                  IF bad = {} THEN <<>> ELSE r.segs[First(bad)]>>
      [] r.k = "hand" ->
           LET bad == {i \in DOMAIN r.segs : r.segs[i][3] >= 0 /\ r.segs[i][4] >= 0 /\ r.segs[i][3] > r.segs[i][4]} IN
           <<IF bad = {} THEN {} ELSE {"hand_timed_scores_more_than_electronic"}, IF bad = {} THEN <<>> ELSE r.segs[First(bad)]>>
      [] r.k = "table" ->
           LET R == r.rows
               unord == {i \in 1..(Len(R) - 1) : ~(R[i][1] < R[i + 1][1] /\ (IF r.high THEN R[i][2] < R[i + 1][2] ELSE R[i][2] > R[i + 1][2]))}
               unreach == {i \in DOMAIN R : R[i][3] # R[i][1]}
           IN <<(IF unord = {} THEN {} ELSE {"table_not_ordered"}) \cup (IF unreach = {} THEN {} ELSE {"table_entry_unreachable"})
                \cup (IF r.normkey THEN {} ELSE {"table_key_not_normalised_event_code"}),
                IF unord # {} THEN R[First(unord)] ELSE IF unreach # {} THEN R[First(unreach)] ELSE <<>>>>
Check(t) == LET v == Viol(Trace[t]) IN v[1] = {} \/ Report("viol", t, v[1], v[2])
Init == tid \in DOMAIN Trace
Next == UNCHANGED tid
Spec == Init /\ [][Next]_tid
Checked == Check(tid)
=============================================================================
