------------------------- MODULE Proof_SharedScratch -------------------------
(***************************************************************************)
(* C16, per-call scratch on a shared grader object, for ANY number of      *)
(* threads, rows and ages: a machine-checked (TLAPS) proof that the model  *)
(* of the code as it is now (every lookup under the grader's lock:         *)
(* Locked = TRUE) is Linearizable - each call returns the factor of its    *)
(* own row and age - in every reachable state of every interleaving.       *)
(* TLC checks 3 threads x 2 rows x 2 ages and refutes the unlocked         *)
(* variant; the scheduler binds the model to the real graders.             *)
(***************************************************************************)
EXTENDS SharedScratch, TLAPS

ASSUME Assump == /\ NRows \in Nat /\ NAges \in Nat /\ Locked = TRUE
                 /\ None \notin Threads

Labels == {"acq", "fage", "frow", "read", "rel", "Done"}
InCS(t) == pc[t] \in {"fage", "frow", "read", "rel"}

TypeOK == /\ fx \in 0..NRows /\ ax \in 0..NAges
          /\ owner \in Threads \cup {None}
          /\ depth \in Nat
          /\ result \in [Threads -> (0..NRows) \X (0..NAges)]
          /\ row \in [Threads -> 1..NRows]
          /\ age \in [Threads -> 1..NAges]
          /\ pc \in [Threads -> Labels]

IndInv == /\ TypeOK
          /\ \A t \in Threads : InCS(t) <=> owner = t                         \* the lock is held exactly inside the call
          /\ depth = IF owner = None THEN 0 ELSE 1
          /\ \A t \in Threads : pc[t] \in {"frow", "read", "rel"} => ax = age[t]     \* nobody else wrote the scratch
          /\ \A t \in Threads : pc[t] \in {"read", "rel"} => fx = row[t]
          /\ \A t \in Threads : pc[t] \in {"rel", "Done"} => result[t] = <<row[t], age[t]>>

LEMMA InitInv == Init => IndInv
  BY Assump DEF Init, IndInv, TypeOK, InCS, Labels, ProcSet, None

LEMMA StepInv == IndInv /\ [Next]_vars => IndInv'
<1> SUFFICES ASSUME IndInv, [Next]_vars PROVE IndInv'
  OBVIOUS
<1> USE Assump DEF IndInv, TypeOK, InCS, Labels, ProcSet, None
<1>1. ASSUME NEW self \in Threads, acq(self) PROVE IndInv'
  <2>1. pc[self] = "acq" /\ owner = None
    BY <1>1 DEF acq
  <2>2. owner' = self /\ depth' = depth + 1 /\ pc' = [pc EXCEPT ![self] = "fage"] /\ UNCHANGED << fx, ax, result, row, age >>
    BY <1>1 DEF acq
  <2>3. \A t \in Threads : ~InCS(t)
    BY <2>1
  <2> QED BY <2>1, <2>2, <2>3
<1>2. ASSUME NEW self \in Threads, fage(self) PROVE IndInv'
  <2>1. pc[self] = "fage" /\ owner = self /\ ax' = age[self] /\ pc' = [pc EXCEPT ![self] = "frow"]
        /\ UNCHANGED << fx, owner, depth, result, row, age >>
    BY <1>2 DEF fage
  <2>2. \A t \in Threads : t # self => ~InCS(t)
    BY <2>1
  <2> QED BY <2>1, <2>2
<1>3. ASSUME NEW self \in Threads, frow(self) PROVE IndInv'
  <2>1. pc[self] = "frow" /\ owner = self /\ fx' = row[self] /\ pc' = [pc EXCEPT ![self] = "read"]
        /\ UNCHANGED << ax, owner, depth, result, row, age >>
    BY <1>3 DEF frow
  <2>2. \A t \in Threads : t # self => ~InCS(t)
    BY <2>1
  <2> QED BY <2>1, <2>2
<1>4. ASSUME NEW self \in Threads, read(self) PROVE IndInv'
  <2>1. pc[self] = "read" /\ owner = self /\ fx = row[self] /\ ax = age[self]
        /\ result' = [result EXCEPT ![self] = <<fx, ax>>] /\ pc' = [pc EXCEPT ![self] = "rel"]
        /\ UNCHANGED << fx, ax, owner, depth, row, age >>
    BY <1>4 DEF read
  <2> QED BY <2>1
<1>5. ASSUME NEW self \in Threads, rel(self) PROVE IndInv'
  <2>1. pc[self] = "rel" /\ owner = self /\ depth = 1
    BY <1>5 DEF rel
  <2>2. depth' = 0 /\ owner' = None /\ pc' = [pc EXCEPT ![self] = "Done"] /\ UNCHANGED << fx, ax, result, row, age >>
    BY <1>5, <2>1 DEF rel
  <2>3. \A t \in Threads : t # self => ~InCS(t)
    BY <2>1
  <2> QED BY <2>1, <2>2, <2>3
<1>6. CASE Terminating
  BY <1>6 DEF Terminating, vars
<1>7. CASE UNCHANGED vars
  BY <1>7 DEF vars
<1> QED BY <1>1, <1>2, <1>3, <1>4, <1>5, <1>6, <1>7 DEF Next, T

THEOREM Safe == Spec => []Linearizable
<1>1. IndInv => Linearizable
  BY DEF IndInv, TypeOK, Linearizable
<1> QED BY InitInv, StepInv, <1>1, PTL DEF Spec
=============================================================================
