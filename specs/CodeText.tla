------------------------------ MODULE CodeText ------------------------------
(***************************************************************************)
(* Event codes as text (C07 / C10 / C12 / C17): a string is a sequence of  *)
(* Unicode code points; EventCodesNFA (generated from the live patterns)   *)
(* supplies the NFAs and the code-point classes.  Accepts(name, s) is      *)
(* `PAT_name.match(s) is not None`, decided by running the NFA.            *)
(***************************************************************************)
EXTENDS Naturals, Sequences, FiniteSets, TLC, EventCodesNFA

Idx(name) == CHOOSE p \in DOMAIN PatNames : PatNames[p] = name
\* ClassRanges = <<lo, hi, class>>, sorted, disjoint; everything else is OtherClass
ClassOf(cp) == IF \E i \in DOMAIN ClassRanges : ClassRanges[i][1] <= cp /\ cp <= ClassRanges[i][2]
               THEN ClassRanges[CHOOSE i \in DOMAIN ClassRanges : ClassRanges[i][1] <= cp /\ cp <= ClassRanges[i][2]][3]
               ELSE OtherClass
Classes(s) == [i \in DOMAIN s |-> ClassOf(s[i])]

RECURSIVE RunNFA(_, _, _, _, _, _)
\* live set, sticky (matched a prefix without $), prevEnd, lastNL, remaining classes
RunNFA(p, live, sticky, prevEnd, lastNL, cs) ==
    IF cs = <<>> THEN sticky \/ live \cap FinEnd[p] # {} \/ (lastNL /\ prevEnd)
    ELSE LET c == Head(cs)
             nxt == UNION {Delta[p][q][c] : q \in live}
         IN RunNFA(p, nxt, sticky \/ nxt \cap FinNoEnd[p] # {}, live \cap FinEndNL[p] # {}, c = NLClass, Tail(cs))
AcceptsC(name, cs) == LET p == Idx(name) IN RunNFA(p, {1}, 1 \in FinNoEnd[p], FALSE, FALSE, cs)
Accepts(name, s) == AcceptsC(name, Classes(s))

FamilyNames == {"PAT_TRACK", "PAT_HURDLES", "PAT_ROAD", "PAT_RELAYS", "PAT_JUMPS", "PAT_THROWS", "PAT_MULTI",
                "PAT_RACES_FOR_DISTANCE", "PAT_HIGHSCORING_EVENT", "PAT_LOWSCORING_EVENT"}
Families(s) == LET cs == Classes(s) IN {f \in FamilyNames : AcceptsC(f, cs)}
IsCode(s) == Accepts("PAT_EVENT_CODE", s)

IsSpace(cp) == cp \in {9, 10, 11, 12, 13, 28, 29, 30, 31, 32, 133, 160, 5760, 8232, 8233, 8239, 8287, 12288}
               \/ (cp >= 8192 /\ cp <= 8202)
HasSpace(s) == \E i \in DOMAIN s : IsSpace(s[i])
RECURSIVE StripL(_)
StripL(s) == IF s # <<>> /\ IsSpace(Head(s)) THEN StripL(Tail(s)) ELSE s
RECURSIVE StripR(_)
StripR(s) == IF s # <<>> /\ IsSpace(s[Len(s)]) THEN StripR(SubSeq(s, 1, Len(s) - 1)) ELSE s
Strip(s) == StripR(StripL(s))
=============================================================================
