SPECIFICATION TSpec
INVARIANT Checked
CHECK_DEADLOCK FALSE
