---------------------------- MODULE SchemaCache ----------------------------
(***************************************************************************)
(* athlib.utils.schema_valid / valid_against_schema and their two bounded  *)
(* caches (C19).  A cache is a Python dict: an insertion-ordered sequence  *)
(* of <<key, value>> pairs.  Fresh(k) is the ground truth of key k: what a *)
(* fresh process finds ("valid" / "invalid").                              *)
(*                                                                         *)
(* Pure operators return <<outcome, cache'>>; outcomes are "True",         *)
(* "False", "Raise" (SchemaError / ValidationError when failure is         *)
(* expected) and "RuntimeError" (dict changed size during iteration).      *)
(***************************************************************************)
EXTENDS Naturals, Sequences, FiniteSets, TLC

\* (the type annotation comments are for Apalache, which discharges an inductive invariant in Apa_SchemaCache.tla)

\* @type: (Seq(<<Str, Bool>>), Str) => Bool;
HasKey(c, k) == \E i \in DOMAIN c : c[i][1] = k
\* @type: (Seq(<<Str, Bool>>), Str) => Bool;
Lookup(c, k) == c[CHOOSE i \in DOMAIN c : c[i][1] = k][2]
\* @type: (Seq(<<Str, Bool>>)) => (Int -> Str);
Keys(c) == [i \in DOMAIN c |-> c[i][1]]

\* _add_to_cache: it = reversed(c); while len(c) >= maxlen: c.pop(next(it)); c[t] = v
\* The reversed iterator survives exactly one pop; a second next() raises RuntimeError.
\* @type: (Seq(<<Str, Bool>>), Str, Bool, Int) => <<Str, Seq(<<Str, Bool>>)>>;
AddToCache(c, k, v, maxlen) ==
    IF Len(c) < maxlen THEN <<"ok", Append(c, <<k, v>>)>>
    ELSE LET c1 == SubSeq(c, 1, Len(c) - 1) IN        \* pops the most recently inserted key
         IF Len(c1) < maxlen THEN <<"ok", Append(c1, <<k, v>>)>>
         ELSE <<"RuntimeError", c1>>

\* Ground truth of a key: "valid", "invalid", or "broken" - valid_against_schema against a schema file that is itself not
\* a valid schema: the SchemaError is raised whichever way expect_failure is set, and nothing is remembered.
FreshOutcome(fresh, ef) == IF fresh = "valid" THEN "True" ELSE IF fresh = "broken" \/ ef THEN "Raise" ELSE "False"

\* schema_valid / valid_against_schema share this shape (after "fix: a cached failure was
\* returned instead of raising when failure is expected"): a cached False is not served
\* to a caller that expects the failure to be raised.
\* @type: (Seq(<<Str, Bool>>), Str, Bool, Str, Int) => <<Str, Seq(<<Str, Bool>>)>>;
Validate(c, k, ef, fresh, maxlen) ==
    IF HasKey(c, k) /\ (Lookup(c, k) \/ ~ef) THEN <<IF Lookup(c, k) THEN "True" ELSE "False", c>>
    ELSE IF fresh = "broken" THEN <<"Raise", c>>
    ELSE IF fresh = "valid" THEN
            LET a == AddToCache(c, k, TRUE, maxlen) IN <<IF a[1] = "ok" THEN "True" ELSE a[1], a[2]>>
    ELSE IF ~ef THEN
            LET a == AddToCache(c, k, FALSE, maxlen) IN <<IF a[1] = "ok" THEN "False" ELSE a[1], a[2]>>
    ELSE <<"Raise", c>>

\* the pre-fix behaviour, kept to document the defect (TLC refutes HistoryIndependent on it)
\* @type: (Seq(<<Str, Bool>>), Str, Bool, Str, Int) => <<Str, Seq(<<Str, Bool>>)>>;
ValidateAsWas(c, k, ef, fresh, maxlen) ==
    IF HasKey(c, k) THEN <<IF Lookup(c, k) THEN "True" ELSE "False", c>>
    ELSE Validate(c, k, ef, fresh, maxlen)
=============================================================================
