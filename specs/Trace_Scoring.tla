---------------------------- MODULE Trace_Scoring ----------------------------
(* C05, Hungarian/IAAF scoring: observed score sequences per table row.          *)
EXTENDS Scoring, Json, IOUtils
VARIABLES tid
Trace == ndJsonDeserialize(IOEnv.TRACE_FILE)
Report(kind, t, clauses, at) == PrintT("@@" \o ToJson([kind |-> kind, tid |-> t, clauses |-> clauses, at |-> at]))
Check(t) == LET r == Trace[t]
                v == (IF MonotoneSegments(r.high, r.segs) THEN {} ELSE {"better_mark_scores_fewer_points"})
                     \cup (IF IntegerResults(r.segs) THEN {} ELSE {"raised_or_not_integer"})
                     \cup (IF \E i \in DOMAIN r.segs : IsPoints(r.segs[i][3]) THEN {} ELSE {"never_scored"})
                bad == {i \in 1..(Len(r.segs) - 1) : ~MonotoneSegments(r.high, <<r.segs[i], r.segs[i + 1]>>)}
            IN v = {} \/ Report("viol", t, v, IF bad = {} THEN <<>> ELSE r.segs[CHOOSE i \in bad : \A j \in bad : i <= j])
Init == tid \in DOMAIN Trace
Next == UNCHANGED tid
Spec == Init /\ [][Next]_tid
Checked == Check(tid)
ParabolaTheorem == \A z \in {1070, 1700, 18200, 40000} : \A c \in 0..z : ParabolaSide(z, c)
=============================================================================
