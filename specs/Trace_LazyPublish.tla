------------------------- MODULE Trace_LazyPublish -------------------------
(* C16, code -> spec: executions of the real lazily-built-table code (athlon    *)
(* _scoring_objects, Hungarian _table) under the controlled scheduler, validated *)
(* as behaviours of the PlusCal model LazyPublish.                               *)
(* One trace per ndjson line: [init |-> <<pub, n>> (observed state before the    *)
(*   first step), events |-> << <<thread, label, pub, n>>, ... >>]              *)
(*   thread 1..2; label = the model label the executed source line stands for    *)
(*   ("test", "build", "publish", "look", as-it-was code: "pubE", "fill",        *)
(*   "fillhead";                                                                 *)
(*   "other" = a line that touches no shared state: a stuttering step);          *)
(*   pub / n = the observed shared state after the line (global bound? how many  *)
(*   rows in the published dict).  pc, mine, i are not logged: TLC infers them.  *)
(* A trace is accepted when every event can be consumed.                         *)
EXTENDS LazyPublish, Json, IOUtils, Sequences
VARIABLES tr, l
Tr == ndJsonDeserialize(IOEnv.TRACE_FILE)
Ev(t) == Tr[t].events

TraceInit == /\ tr \in DOMAIN Tr /\ pub = Tr[tr].init[1] /\ rows = 1..Tr[tr].init[2] /\ result = [t \in Threads |-> "pending"]
             /\ mine = [self \in Threads |-> {}] /\ i = [self \in Threads |-> 1]
             /\ want = [self \in Threads |-> 1] /\ pc = [self \in ProcSet |-> "test"]
             /\ l = 1
Step(self, label) ==
    CASE label = "test" -> test(self) [] label = "build" -> build(self) [] label = "publish" -> publish(self)
      [] label = "look" -> look(self) [] label = "pubE" -> pubE(self)
      \* as-it-was code: the insertion line is the body of the model's fill loop, the loop head its exit test
      [] label = "fill" -> IF pc[self] = "fill" /\ i[self] <= NRows THEN fill(self) ELSE UNCHANGED vars
      [] label = "fillhead" -> IF pc[self] = "fill" /\ i[self] > NRows THEN fill(self) ELSE UNCHANGED vars
      [] OTHER -> UNCHANGED vars
TraceNext == /\ l <= Len(Ev(tr)) /\ l' = l + 1 /\ UNCHANGED tr
             /\ LET e == Ev(tr)[l] IN
                  /\ Step(e[1], e[2])
                  /\ pub' = e[3] /\ Cardinality(rows') = e[4]          \* the logged shared state
TraceSpec == TraceInit /\ [][TraceNext]_<<vars, tr, l>>
\* acceptance is reported per trace (thousands of traces per JVM)
Accepted == l = Len(Ev(tr)) + 1 => PrintT("@@" \o ToJson([accepted |-> tr]))
\* the properties of the model, evaluated on the observed behaviour; reported per trace, never stopping TLC:
\*   hazard          - a state in which other threads could see a half-filled table (AtomicTable fails)
\*   nonlinearizable - a modelled caller looked into such a table and missed its row (Linearizable fails)
\* The harness compares these verdicts with what the real calls returned.
ObservedAtomic == AtomicTable \/ PrintT("@@" \o ToJson([hazard |-> tr]))
ObservedLinearizable == Linearizable \/ PrintT("@@" \o ToJson([nonlinearizable |-> tr]))
=============================================================================
