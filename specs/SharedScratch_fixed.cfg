SPECIFICATION Spec
CONSTANTS
 Threads = {1, 2, 3}
 NRows = 2
 NAges = 2
 Locked = TRUE
INVARIANT Linearizable
