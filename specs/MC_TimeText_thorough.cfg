SPECIFICATION Spec
CONSTANTS
 Alpha = {0, 1, 5, 9}
 MaxFrac = 7
INVARIANT MechMatchesArithmetic
CHECK_DEADLOCK FALSE
