------------------------------- MODULE Scoring -------------------------------
(***************************************************************************)
(* C05 - system-independent statements about observed score sequences.     *)
(* segs = <<lo, hi, val>> runs of equal outcome over ascending centi-marks *)
(* val = points (any integer), -1000001 = refused, -1000002 = other        *)
(* exception, -1000003 = not an integer.                                   *)
(***************************************************************************)
EXTENDS Naturals, Integers, Sequences, FiniteSets, TLC
Refused == -1000001
IsPoints(v) == v > -1000000
\* points never decrease as the mark improves (higherBetter: larger centi-mark is better)
MonotoneSegments(higherBetter, S) ==
    \A i \in 1..(Len(S) - 1) : (IsPoints(S[i][3]) /\ IsPoints(S[i + 1][3])) =>
        (IF higherBetter THEN S[i][3] <= S[i + 1][3] ELSE S[i][3] >= S[i + 1][3])
IntegerResults(S) == \A i \in DOMAIN S : S[i][3] >= Refused
\* the Hungarian parabola a*(p+b)^2 + c on its monotone side: for timed events (b < 0) marks no
\* slower than the zero point -b; squares of the distance to the zero point shrink as the mark slows
ParabolaSide(zero, c) == c <= zero => (zero - c) * (zero - c) >= (zero - (c + 1)) * (zero - (c + 1)) \/ c = zero
=============================================================================
