------------------------------ MODULE Implements ------------------------------
(***************************************************************************)
(* C17 - implement weights and weight-specific event codes                 *)
(* (athlib.implements) against the event-code vocabulary (CodeText).       *)
(***************************************************************************)
EXTENDS CodeText, Integers

IsDigitCp(cp) == cp >= 48 /\ cp <= 57
\* the decimal numeral in a code-point sequence (first run of digits with an optional fraction),
\* as centi-units: "7.26" -> 726, "800" -> 80000, "4" -> 400; -1 if there is none
RECURSIVE SkipToDigit(_)
SkipToDigit(s) == IF s = <<>> \/ IsDigitCp(Head(s)) THEN s ELSE SkipToDigit(Tail(s))
RECURSIVE TakeDigits(_)
TakeDigits(s) == IF s # <<>> /\ IsDigitCp(Head(s)) THEN <<Head(s) - 48>> \o TakeDigits(Tail(s)) ELSE <<>>
RECURSIVE ValDg(_, _)
ValDg(ds, acc) == IF ds = <<>> THEN acc ELSE ValDg(Tail(ds), 10 * acc + Head(ds))
Centi(s) ==
    LET t == SkipToDigit(s)
        ip == TakeDigits(t)
        r == SubSeq(t, Len(ip) + 1, Len(t))
        fp == IF r # <<>> /\ Head(r) = 46 THEN TakeDigits(Tail(r)) ELSE <<>>
        f2 == IF Len(fp) >= 2 THEN SubSeq(fp, 1, 2) ELSE fp \o [i \in 1..(2 - Len(fp)) |-> 0]
    IN IF ip = <<>> \/ Len(ip) > 6 THEN -1 ELSE ValDg(ip, 0) * 100 + ValDg(f2, 0)

Throws5 == {<<83, 80>>, <<68, 84>>, <<72, 84>>, <<74, 84>>, <<87, 84>>}      \* SP DT HT JT WT
\* masters bands in numeric order: V35 < V40 < ... (the label carries the number)
BandOf(label) == IF label # <<>> /\ Head(label) = 86 /\ Len(label) > 1 /\ \A i \in 2..Len(label) : IsDigitCp(label[i])
                 THEN ValDg([i \in 1..(Len(label) - 1) |-> label[i + 1] - 48], 0) ELSE 0
=============================================================================
