------------------------------ MODULE TimeText ------------------------------
(***************************************************************************)
(* C06 - decimal round-up, h:mm:ss formatting and parsing                  *)
(* (athlib.utils.round_up_str_num / format_seconds_as_time / parse_hms).   *)
(* All arithmetic is exact integer arithmetic on digit sequences; nothing  *)
(* here exceeds 2^31.                                                      *)
(***************************************************************************)
EXTENDS Naturals, Integers, Sequences, FiniteSets, TLC

Pow10 == <<10, 100, 1000, 10000, 100000, 1000000, 10000000>>
P10(k) == IF k = 0 THEN 1 ELSE Pow10[k]

RECURSIVE ValAcc(_, _)
ValAcc(ds, acc) == IF ds = <<>> THEN acc ELSE ValAcc(Tail(ds), 10 * acc + Head(ds))
Val(ds) == ValAcc(ds, 0)
PadTo(ds, n) == IF Len(ds) >= n THEN SubSeq(ds, 1, n) ELSE ds \o [i \in 1..(n - Len(ds)) |-> 0]
AllZero(ds) == \A i \in DOMAIN ds : ds[i] = 0

(***************************************************************************)
(* round_up_str_num: the arithmetic definition                             *)
(***************************************************************************)
\* value in units of 10^-5 of the numeral ip.fp, digits beyond the fifth decimal ignored
V5(ip, fp) == Val(ip) * 100000 + Val(PadTo(fp, 5))
\* ceiling of v5 (units 10^-5) in units of 10^-prec
CeilTo(v5, prec) == LET u == P10(5 - prec) IN (v5 + u - 1) \div u
\* `out` (a parsed numeral: ip, fp, dot) is the ceiling of the input to prec places
RoundUpOK(ip, fp, prec, out) ==
    /\ out.ok
    /\ Len(out.fp) = prec
    /\ out.dot = (prec > 0)
    /\ Len(out.ip) + Len(out.fp) >= 1
    /\ Val(out.ip) * P10(prec) + Val(out.fp) = CeilTo(V5(ip, fp), prec)

(***************************************************************************)
(* round_up_str_num: transcription of the string algorithm (mechanism),    *)
(* after "fix: round_up_str_num returned an empty integer part".           *)
(* Returns <<ip, fp>> as digit sequences.                                  *)
(***************************************************************************)
RECURSIVE Digits(_)
Digits(n) == IF n < 10 THEN <<n>> ELSE Append(Digits(n \div 10), n % 10)
StripLeadingZeros(ds) == IF AllZero(ds) THEN <<>>
                         ELSE SubSeq(ds, CHOOSE i \in DOMAIN ds : ds[i] # 0 /\ \A j \in 1..(i - 1) : ds[j] = 0, Len(ds))
RoundUpMech(ip, fp0, dot, prec) ==
    LET f0 == IF dot THEN SubSeq(fp0, 1, IF Len(fp0) < 5 THEN Len(fp0) ELSE 5) ELSE [i \in 1..prec |-> 0]
        n == Len(f0)
    IN IF n > prec THEN
          LET f == SubSeq(f0, 1, prec)
              t == StripLeadingZeros(SubSeq(f0, prec + 1, n))
          IN IF t # <<>> THEN
                LET i1 == ip \o f
                    i2 == IF i1 = <<>> THEN <<1>> ELSE Digits(Val(i1) + 1)
                    nn == Len(i2) - prec
                    i3 == IF nn < 1 THEN [k \in 1..(1 - nn) |-> 0] \o i2 ELSE i2
                    n3 == IF nn < 1 THEN 1 ELSE nn
                IN <<SubSeq(i3, 1, n3), SubSeq(i3, Len(i3) - prec + 1, Len(i3))>>
             ELSE <<IF ip = <<>> THEN <<0>> ELSE ip, f>>
       ELSE <<IF ip = <<>> THEN <<0>> ELSE ip, PadTo(f0, prec)>>

(***************************************************************************)
(* format_seconds_as_time                                                  *)
(* input:  w = whole seconds, f5 = first five decimals, res = something    *)
(*         non-zero beyond the fifth decimal (noise)                       *)
(* output: fields (numbers between the colons), widths (their printed      *)
(*         widths), fd (fraction digits), dot                              *)
(***************************************************************************)
FieldSecs(fields) == CASE Len(fields) = 1 -> fields[1]
                       [] Len(fields) = 2 -> fields[1] * 60 + fields[2]
                       [] Len(fields) = 3 -> fields[1] * 3600 + fields[2] * 60 + fields[3]
FormatFail(w, f5, res, prec, out) ==
    IF ~out.ok THEN {"format_malformed_text"}
    ELSE LET n == Len(out.fields)
             ow == FieldSecs(out.fields)
             of5 == Val(out.fd) * P10(5 - Len(out.fd))
             diff == (ow - w) * 100000 + (of5 - f5)      \* out - duration(truncated to 5 dp), units 1e-5
             u == P10(5 - prec)
         \* seconds are below 60 in every form, minutes whenever there is a minutes field (60 s / 60 min
         \* roll over into the next field); non-leading fields are two digits wide
         IN (IF /\ n \in 1..3
                /\ out.fields[n] < 60
                /\ (n >= 2 => out.fields[n - 1] < 60)
                /\ \A i \in 2..n : out.widths[i] = 2
             THEN {} ELSE {"format_field_not_below_60"})
            \cup (IF Len(out.fd) = prec /\ out.dot = (prec > 0) THEN {} ELSE {"format_wrong_number_of_decimals"})
            \cup (IF n \in 1..3 /\ (ow > w + 1 \/ ow < w) THEN {"format_value_off_by_seconds"}
                  ELSE IF n \notin 1..3 THEN {}
                  ELSE (IF diff >= 0 THEN {} ELSE {"format_rounded_down"})
                       \cup (IF diff <= (IF res THEN u ELSE u - 1) THEN {} ELSE {"format_more_than_one_unit_above"}))
            \* the library's own parser reads the text back as the same value (pb = parse_hms(text))
            \cup (IF "pb" \notin DOMAIN out \/ out.pb.t = "none" \/ n \notin 1..3 THEN {}
                  ELSE IF out.pb.t \notin {"int", "float"} THEN {"format_text_does_not_parse_back"}
                  ELSE LET d == (out.pb.w - ow) * 1000000 + (out.pb.micro - Val(PadTo(out.fd, 6))) IN
                       IF d >= -1 /\ d <= 1 THEN {} ELSE {"format_text_does_not_parse_back"})
            \* leading field is not zero-padded and hours/minutes appear only when non-zero
            \cup (IF n \in 2..3 /\ out.fields[1] = 0 THEN {"format_leading_zero_field"} ELSE {})

\* mechanism: divmod + round-up of the fraction + carry
FormatMech(w, f5, prec) ==
    LET c == CeilTo(f5, prec)
        carry == c \div P10(prec)
        frac == c % P10(prec)
        tot == w + carry
    IN <<tot \div 3600, (tot \div 60) % 60, tot % 60, frac>>

(***************************************************************************)
(* parse_hms: fields are numerals [ip, fp, dot]; value as <<whole, micro>> *)
(***************************************************************************)
FieldMicro(f) == Val(PadTo(f.fp, 6))
SumSeq3(s) == IF Len(s) = 1 THEN s[1] ELSE IF Len(s) = 2 THEN s[1] + s[2] ELSE s[1] + s[2] + s[3]
\* fraction of field f times mult, as <<whole seconds, micro seconds>> without overflowing 2^31
FracTimes(f, mult) == LET m == FieldMicro(f)
                          hi == m \div 1000
                          lo == m % 1000
                      IN <<(hi * mult) \div 1000, ((hi * mult) % 1000) * 1000 + lo * mult>>
ParseExpected(fields) ==   \* <<whole seconds, micro seconds, all fields integers>>
    LET n == Len(fields)
        mult(i) == IF n - i = 0 THEN 1 ELSE IF n - i = 1 THEN 60 ELSE 3600
        whole == SumSeq3([i \in 1..n |-> Val(fields[i].ip) * mult(i) + FracTimes(fields[i], mult(i))[1]])
        micro == SumSeq3([i \in 1..n |-> FracTimes(fields[i], mult(i))[2]])
    IN <<whole + micro \div 1000000, micro % 1000000, \A i \in 1..n : ~fields[i].dot>>
ParseFail(fields, out) ==
    LET e == ParseExpected(fields) IN
    IF out.t \notin {"int", "float"} THEN {"parse_refused_wellformed_text"}
    ELSE (IF e[3] = (out.t = "int") THEN {} ELSE {"parse_integer_did_not_stay_integer"})
         \cup (IF LET d == (out.w - e[1]) * 1000000 + (out.micro - e[2]) IN d >= -1 /\ d <= 1 THEN {} ELSE {"parse_value_not_exact"})
\* any text whatsoever: a number or ValueError
ParseTotalFail(out) == IF out.t \in {"int", "float", "exc:ValueError"} THEN {} ELSE {"parse_raised_other_than_ValueError"}
=============================================================================
