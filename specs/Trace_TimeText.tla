--------------------------- MODULE Trace_TimeText ---------------------------
(* C06: observations of the real functions, one record per call.              *)
(*  k = "ru": round_up_str_num   [ip, fp, dot, prec, out]                     *)
(*  k = "ft": format_seconds_as_time [w, f5, res, prec, out]                  *)
(*  k = "ph": parse_hms on well-formed field text [fields, out]               *)
(*  k = "pj": parse_hms on arbitrary text [out]                               *)
EXTENDS TimeText, Json, IOUtils
VARIABLES tid
Trace == ndJsonDeserialize(IOEnv.TRACE_FILE)
Report(kind, t, clauses) == PrintT("@@" \o ToJson([kind |-> kind, tid |-> t, clauses |-> clauses]))

Viol(r) ==
    CASE r.k = "ru" -> IF RoundUpOK(r.ip, r.fp, r.prec, r.out) THEN {} ELSE {"round_up_not_ceiling"}
      [] r.k = "ft" -> FormatFail(r.w, r.f5, r.res, r.prec, r.out)
      [] r.k = "ph" -> ParseFail(r.fields, r.out) \cup ParseTotalFail(r.out)
      [] r.k = "pj" -> ParseTotalFail(r.out)
Drift(r) ==
    CASE r.k = "ru" -> IF r.out.ok /\ RoundUpMech(r.ip, r.fp, r.dot, r.prec) = <<r.out.ip, r.out.fp>> THEN {} ELSE {"model_round_up"}
      [] r.k = "ft" -> IF r.res THEN {} ELSE IF ~r.out.ok THEN {"model_format"} ELSE
                       LET m == FormatMech(r.w, r.f5, r.prec)
                           fields == IF m[1] > 0 THEN <<m[1], m[2], m[3]>> ELSE IF m[2] > 0 THEN <<m[2], m[3]>> ELSE <<m[3]>>
                       IN IF fields = r.out.fields /\ Val(r.out.fd) = m[4] THEN {} ELSE {"model_format"}
      [] OTHER -> {}
Check(t) == LET r == Trace[t]
                v == Viol(r)
                d == Drift(r)
            IN /\ v = {} \/ Report("viol", t, v)
               /\ d = {} \/ Report("drift", t, d)
Init == tid \in DOMAIN Trace
Next == UNCHANGED tid
Spec == Init /\ [][Next]_tid
Checked == Check(tid)
=============================================================================
