------------------------------ MODULE PerfCheck ------------------------------
(***************************************************************************)
(* C12 - check_performance_for_discipline: the *output* grammar and        *)
(* plausibility relation only (the input heuristics are not re-specified). *)
(* A result text is tokenised by the recorder into                          *)
(*   fields (numbers between colons), widths, fd (fraction digits), dot.    *)
(***************************************************************************)
EXTENDS CodeText, Integers

RECURSIVE ValF(_, _)
ValF(ds, acc) == IF ds = <<>> THEN acc ELSE ValF(Tail(ds), 10 * acc + Head(ds))
Centis(fd) == IF fd = <<>> THEN 0 ELSE IF Len(fd) = 1 THEN fd[1] * 10 ELSE fd[1] * 10 + fd[2]

\* event class of a discipline (code points), decided by the automaton
IsCustom(s) == Accepts("PAT_HIGHSCORING_EVENT", s) \/ Accepts("PAT_LOWSCORING_EVENT", s)
ClassOfEvent(s, loose) ==
    IF loose THEN "timed"
    ELSE IF IsCustom(s) \/ Accepts("PAT_RACES_FOR_DISTANCE", s) THEN "other"
    ELSE IF Accepts("PAT_MULTI", s) THEN "multi"
    ELSE IF Accepts("PAT_FIELD", s) THEN "field"
    ELSE IF Accepts("PAT_TIMED_EVENT", s) THEN "timed"
    ELSE "other"

\* h:mm:ss.xx with seconds (and, under hours, minutes) below 60; a lone seconds field may run to 99.99
\* (R4: the function's own rule is "use mm:ss above 99 seconds", and its tests expect '63.10' for 400 m)
TimeShapeFail(res, prec) ==
    IF ~res.ok THEN {"timed_result_not_a_time_text"}
    ELSE LET n == Len(res.fields) IN
         (IF n \in 1..3 THEN {} ELSE {"timed_result_not_a_time_text"})
         \cup (IF n >= 2 /\ n <= 3 /\ (res.fields[n] >= 60 \/ res.widths[n] # 2) THEN {"seconds_not_below_60"} ELSE {})
         \cup (IF n = 3 /\ (res.fields[2] >= 60 \/ res.widths[2] # 2) THEN {"minutes_not_below_60"} ELSE {})
         \cup (IF n = 1 /\ res.fields[1] >= 100 THEN {"seconds_not_below_60"} ELSE {})
         \cup (IF (prec < 0 /\ Len(res.fd) <= 2) \/ (prec >= 0 /\ Len(res.fd) = prec) THEN {} ELSE {"wrong_number_of_decimals"})
DurationC(res) == LET n == Len(res.fields) IN
                  (IF n = 1 THEN res.fields[1] ELSE IF n = 2 THEN res.fields[1] * 60 + res.fields[2]
                   ELSE res.fields[1] * 3600 + res.fields[2] * 60 + res.fields[3]) * 100 + Centis(res.fd)
\* documented sanity limits: 0.5 m/s .. 11 m/s (up to 400 m) / 10 m/s (beyond)
SpeedFail(res, dist) ==
    IF ~res.ok \/ Len(res.fields) \notin 1..3 \/ dist <= 0 \/ dist > 1000000 \/ (Len(res.fields) = 3 /\ res.fields[1] > 500) THEN {}
    ELSE LET d == DurationC(res) IN
         IF d = 0 THEN {"speed_outside_sanity_limits"}
         ELSE IF 200 * dist >= d /\ dist * 100 <= (IF dist <= 400 THEN 11 ELSE 10) * d THEN {} ELSE {"speed_outside_sanity_limits"}
FieldFail(res, rec120c) ==
    IF ~res.ok \/ Len(res.fields) # 1 \/ Len(res.fd) # 2 \/ ~res.dot THEN {"field_result_not_two_decimal_number"}
    ELSE IF rec120c >= 0 /\ res.fields[1] < 10000 /\ res.fields[1] * 100 + Centis(res.fd) > rec120c THEN {"field_result_absurdly_beyond_record"} ELSE {}
MultiFail(res) == IF res.ok /\ Len(res.fields) = 1 /\ ~res.dot /\ res.fields[1] < 10000 THEN {} ELSE {"multi_result_not_integer_below_10000"}
=============================================================================
