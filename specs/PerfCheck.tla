------------------------------ MODULE PerfCheck ------------------------------
(***************************************************************************)
(* C12 - check_performance_for_discipline: the *output* grammar and        *)
(* plausibility relation only (the input heuristics are not re-specified). *)
(* A result text is tokenised by the recorder into                          *)
(*   fields (numbers between colons), widths, fd (fraction digits), dot.    *)
(***************************************************************************)
EXTENDS SortKey          \* CodeText, Integers, and the distance a code states (StatedDistance, RelayParts)

RECURSIVE ValF(_, _)
ValF(ds, acc) == IF ds = <<>> THEN acc ELSE ValF(Tail(ds), 10 * acc + Head(ds))
Centis(fd) == IF fd = <<>> THEN 0 ELSE IF Len(fd) = 1 THEN fd[1] * 10 ELSE fd[1] * 10 + fd[2]

\* event class of a discipline (code points), decided by the automaton
IsCustom(s) == Accepts("PAT_HIGHSCORING_EVENT", s) \/ Accepts("PAT_LOWSCORING_EVENT", s)
\* A code belongs to every class whose pattern accepts it; C04 shows the classes disjoint on the current tree, but the
\* clauses of C12 are stated per class ("for timed events ..."), so a code that a changed pattern puts into two classes
\* has to satisfy both (seed C12-g: '60H' became a fixed-duration race as well and escaped the time-text clauses).
ClassesOfEvent(s, loose) ==
    IF loose THEN {"timed"}
    ELSE IF IsCustom(s) THEN {"other"}          \* H1..H9, L1..L9, BAL, SPB: scored on their own scales, no record, no shape
    ELSE LET c == (IF Accepts("PAT_MULTI", s) THEN {"multi"} ELSE {})
                  \cup (IF Accepts("PAT_FIELD", s) THEN {"field"} ELSE {})
                  \cup (IF Accepts("PAT_TIMED_EVENT", s) THEN {"timed"} ELSE {})
         IN IF c = {} THEN {"other"} ELSE c

\* h:mm:ss.xx with seconds (and, under hours, minutes) below 60; a lone seconds field may run to 99.99
\* (R4: the function's own rule is "use mm:ss above 99 seconds", and its tests expect '63.10' for 400 m)
TimeShapeFail(res, prec) ==
    IF ~res.ok THEN {"timed_result_not_a_time_text"}
    ELSE LET n == Len(res.fields) IN
         (IF n \in 1..3 THEN {} ELSE {"timed_result_not_a_time_text"})
         \cup (IF n >= 2 /\ n <= 3 /\ (res.fields[n] >= 60 \/ res.widths[n] # 2) THEN {"seconds_not_below_60"} ELSE {})
         \cup (IF n = 3 /\ (res.fields[2] >= 60 \/ res.widths[2] # 2) THEN {"minutes_not_below_60"} ELSE {})
         \cup (IF n = 1 /\ res.fields[1] >= 100 THEN {"seconds_not_below_60"} ELSE {})
         \cup (IF (prec < 0 /\ Len(res.fd) <= 2) \/ (prec >= 0 /\ Len(res.fd) = prec) THEN {} ELSE {"wrong_number_of_decimals"})
DurationC(res) == LET n == Len(res.fields) IN
                  (IF n = 1 THEN res.fields[1] ELSE IF n = 2 THEN res.fields[1] * 60 + res.fields[2]
                   ELSE res.fields[1] * 3600 + res.fields[2] * 60 + res.fields[3]) * 100 + Centis(res.fd)
\* documented sanity limits: 0.5 m/s .. 11 m/s (up to 400 m) / 10 m/s (beyond)
SpeedFail(res, dist) ==
    IF ~res.ok \/ Len(res.fields) \notin 1..3 \/ dist <= 0 \/ dist > 1000000 \/ (Len(res.fields) = 3 /\ res.fields[1] > 500) THEN {}
    ELSE LET d == DurationC(res) IN
         IF d = 0 THEN {"speed_outside_sanity_limits"}
         ELSE IF 200 * dist >= d /\ dist * 100 <= (IF dist <= 400 THEN 11 ELSE 10) * d THEN {} ELSE {"speed_outside_sanity_limits"}
\* The distance the code itself states, computed here from its text - never through get_distance, the code under test
\* (seed C12-g: a changed pattern made get_distance('60H') answer None and the speed clause fell silent).
RoadDistance(s) ==
    LET w == W(s)
        ip == LeadDigits(w)
        r1 == SubSeq(w, Len(ip) + 1, Len(w))
        dot == r1 # <<>> /\ Head(r1) = 46
        fr == IF dot THEN LeadDigits(Tail(r1)) ELSE <<>>
        tail == IF dot THEN SubSeq(r1, Len(fr) + 2, Len(r1)) ELSE r1
        milli == ValD(ip, 0) * 1000 + ValD(PadMilli(fr, 3), 0)
    IN IF w \in {<<72, 77>>, <<72, 77, 87>>} THEN 21097 ELSE IF w \in {<<77, 65, 82>>, <<77, 65, 82, 87>>} THEN 42195
       ELSE IF w \in {<<77, 73, 76, 69>>, <<77, 73, 76, 69, 87>>} THEN 1609
       ELSE IF ip = <<>> \/ Len(ip) > 3 \/ Len(fr) > 3 THEN -1
       ELSE IF tail \in {<<75>>, <<75, 87>>} THEN milli
       ELSE IF tail \in {<<77>>, <<77, 87>>} THEN (1609 * milli) \div 1000
       ELSE -1
StatedAny(s) ==
    LET F == Families(s) IN
    IF F \cap {"PAT_TRACK", "PAT_HURDLES"} # {} THEN StatedDistance(s)
    ELSE IF "PAT_RELAYS" \in F THEN (LET rp == RelayParts(s) IN IF rp.leg > 0 /\ rp.legs > 0 THEN rp.legs * rp.leg ELSE -1)
    ELSE IF "PAT_ROAD" \in F THEN RoadDistance(s)
    ELSE -1
\* the same limits with 15 % slack (yards read as metres, 1609 vs 1609.344, truncated relay legs): a result this far
\* outside is wrong whatever the estimator says
SpeedFailStated(res, code) ==
    LET dist == StatedAny(code) IN
    IF ~res.ok \/ Len(res.fields) \notin 1..3 \/ dist <= 0 \/ dist > 100000 \/ (Len(res.fields) = 3 /\ res.fields[1] > 500)
       \/ ~AsciiOnly(code) THEN {}          \* LeadDigits reads ASCII digits only
    ELSE LET d == DurationC(res) IN
         IF d = 0 THEN {"speed_not_checked_for_stated_distance"}
         ELSE IF 230 * dist < d THEN {"speed_not_checked_for_stated_distance"}
         ELSE IF d <= 10000000 /\ dist * 100 > 12 * d + (65 * d) \div 100 THEN {"speed_not_checked_for_stated_distance"}
         ELSE {}
FieldFail(res, rec120c) ==
    IF ~res.ok \/ Len(res.fields) # 1 \/ Len(res.fd) # 2 \/ ~res.dot THEN {"field_result_not_two_decimal_number"}
    ELSE IF rec120c >= 0 /\ res.fields[1] < 10000 /\ res.fields[1] * 100 + Centis(res.fd) > rec120c THEN {"field_result_absurdly_beyond_record"} ELSE {}
MultiFail(res) == IF res.ok /\ Len(res.fields) = 1 /\ ~res.dot /\ res.fields[1] < 10000 THEN {} ELSE {"multi_result_not_integer_below_10000"}
=============================================================================
