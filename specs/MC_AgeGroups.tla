---------------------------- MODULE MC_AgeGroups ----------------------------
(* Model run for C13: theorems about the reference functions themselves -      *)
(* total, monotone in the birth date, option independence - over competition   *)
(* dates of a full leap cycle and birth dates around every anniversary.        *)
EXTENDS AgeGroups
CONSTANTS FirstDay, LastDay,   \* competition-date ordinals
          Stride               \* take every Stride-th competition date
VARIABLES m, age
Init == m = FirstDay /\ age = -1
Next == \/ age = -1 /\ m + Stride <= LastDay /\ m' = m + Stride /\ age' = -1
        \/ age < 112 /\ age' = age + 1 /\ m' = m
Spec == Init /\ [][Next]_<<m, age>>

Theorems ==
    age < 0 \/
    \A cat \in {"TF", "XC"} :
      LET c == Civil(m)
          \* every birth date whose age on the day, on 31 Aug or on 31 Dec is near `age`
          lo == m - 366 * age - 370
          B == {lo + k : k \in 0..740}
      IN \A bo \in B : bo > m \/
           LET b == Civil(bo)
               b1 == Civil(bo - 1)
               r == Ref(cat, b, c, TRUE, FALSE)
           IN /\ IsLabel(r)
              /\ Rank(Ref(cat, b1, c, TRUE, FALSE)) >= Rank(r)                       \* earlier birth: never younger
              /\ Ref(cat, b, c, FALSE, FALSE) = (IF IsMasters(r) THEN "SEN" ELSE r)  \* vets: masters only
              /\ LET u == Ref(cat, b, c, TRUE, TRUE) IN u = r \/ (u = "U9" /\ r = "U11")  \* underage: under-11 only
=============================================================================
