------------------------------- MODULE AgeGrade -------------------------------
(***************************************************************************)
(* C14 / C15 - WMA age grading.  IEEE doubles returned by the code are     *)
(* never treated as numbers: each is logged as its 64-bit pattern split    *)
(* into three limbs <<hi (21 bits), mid (21 bits), lo (22 bits)>>.  For    *)
(* positive finite doubles numeric order = lexicographic order of limbs,   *)
(* so FLess / FEq are exact.  A call that raised is logged as <<-1,0,0>>.  *)
(***************************************************************************)
EXTENDS Naturals, Integers, Sequences, FiniteSets, TLC

Raised(x) == x[1] < 0
\* sign bit clear, exponent neither 0 (zero / subnormal) nor 2047 (inf / nan): hi = sign(1) exp(11) frac(9)
IsFinitePos(x) == ~Raised(x) /\ x[1] < 1048576 /\ (x[1] \div 512) # 0 /\ (x[1] \div 512) # 2047
FEq(a, b) == a = b
FLess(a, b) == a[1] < b[1] \/ (a[1] = b[1] /\ (a[2] < b[2] \/ (a[2] = b[2] /\ a[3] < b[3])))
FLeq(a, b) == FEq(a, b) \/ FLess(a, b)
One == <<523776, 0, 0>>            \* 0x3FF0000000000000
\* distance in units in the last place between two positive finite doubles of nearby magnitude
\* (-1 = too far apart to matter)
UlpDist(a, b) == IF a[1] = b[1] /\ a[2] = b[2] THEN (IF a[3] > b[3] THEN a[3] - b[3] ELSE b[3] - a[3])
                 ELSE IF a[1] = b[1] /\ (a[2] = b[2] + 1 \/ b[2] = a[2] + 1) THEN
                      (IF a[2] > b[2] THEN a[3] + 4194304 - b[3] ELSE b[3] + 4194304 - a[3])
                 ELSE 1000000
Near(a, b, ulps) == UlpDist(a, b) <= ulps

FMin(S) == CHOOSE x \in S : \A y \in S : FLeq(x, y)
FMax(S) == CHOOSE x \in S : \A y \in S : FLeq(y, x)

(* ---- C15: bracket selection on the tabulated running distances (millimetres) ---- *)
\* rows = <<dist_mm, factor limbs, best limbs>> in table order (ascending distance)
Dists(rows) == {rows[i][1] : i \in DOMAIN rows}
Shorter(rows, d) == LET S == {x \in Dists(rows) : x < d} IN IF S = {} THEN 0 ELSE CHOOSE x \in S : \A y \in S : y <= x
Longer(rows, d) == LET S == {x \in Dists(rows) : x > d} IN IF S = {} THEN 0 ELSE CHOOSE x \in S : \A y \in S : y >= x
RowsAt(rows, x) == {i \in DOMAIN rows : rows[i][1] = x}
Tabulated(rows, d) == d \in Dists(rows)
=============================================================================
