----------------------------- MODULE EventCodes -----------------------------
(***************************************************************************)
(* The event-code language of athlib/codes.py (C04).                       *)
(*                                                                         *)
(* EventCodesNFA (generated on every run from the live regular             *)
(* expressions) gives, for every exported pattern, an epsilon-free NFA     *)
(* over the finite partition of Unicode induced by the character classes   *)
(* the patterns use.  This module runs all NFAs synchronously: a state is  *)
(* the tuple of live state sets, i.e. TLC's reachable state space is the   *)
(* product of the subset automata, and "for all strings" statements are    *)
(* ordinary invariants - no length bound.                                  *)
(*                                                                         *)
(* Acc(p) is exactly `PAT_p.match(s) is not None` for the string read so   *)
(* far: anchored at the start, prefix match, `$` = at the end or just      *)
(* before a final newline (FinEndNL), `\Z` = at the very end only.          *)
(***************************************************************************)
EXTENDS Naturals, Sequences, FiniteSets, TLC, Json, EventCodesNFA

VARIABLES live,      \* live[p]: set of NFA states of pattern p after the string read so far
          sticky,    \* patterns that already matched a prefix without needing `$`
          prevEnd,   \* patterns that were accepting (with `$`) before the last symbol
          lastNL,    \* the last symbol was a newline
          w          \* the string read so far, as a sequence of class ids (witness only; not in VIEW)

P == DOMAIN PatNames
Idx(name) == CHOOSE p \in P : PatNames[p] = name
Step(S, p, c) == UNION {Delta[p][q][c] : q \in S}

Init == /\ live = [p \in P |-> {1}]
        /\ sticky = {p \in P : 1 \in FinNoEnd[p]}
        /\ prevEnd = {} /\ lastNL = FALSE /\ w = <<>>

Read(c) == /\ live' = [p \in P |-> Step(live[p], p, c)]
           /\ sticky' = sticky \cup {p \in P : Step(live[p], p, c) \cap FinNoEnd[p] # {}}
           /\ prevEnd' = {p \in P : live[p] \cap FinEndNL[p] # {}}
           /\ lastNL' = (c = NLClass)
           /\ w' = Append(w, c)

Next == \E c \in 1..NClasses : Read(c)
Spec == Init /\ [][Next]_<<live, sticky, prevEnd, lastNL, w>>
View == <<live, sticky, prevEnd, lastNL>>

AccP(p) == p \in sticky \/ live[p] \cap FinEnd[p] # {} \/ (lastNL /\ p \in prevEnd)
Acc(name) == AccP(Idx(name))
Accepted == {PatNames[p] : p \in {q \in P : AccP(q)}}

\* acceptance vector after reading one more class (for binding every transition to `re`)
AccAfter(c) ==
    LET lv == [p \in P |-> Step(live[p], p, c)]
        st == sticky \cup {p \in P : lv[p] \cap FinNoEnd[p] # {}}
        pe == {p \in P : live[p] \cap FinEndNL[p] # {}}
    IN {PatNames[p] : p \in {q \in P : q \in st \/ lv[q] \cap FinEnd[q] # {} \/ (c = NLClass /\ q \in pe)}}

(***************************************************************************)
(* C04, one clause per line.  Clauses(A) returns the names of the clauses  *)
(* that the set A of accepting patterns violates.                          *)
(***************************************************************************)
In(A, n) == n \in A
AnyOf(A, S) == A \cap S # {}
Families == {"PAT_TRACK", "PAT_HURDLES", "PAT_ROAD", "PAT_RELAYS", "PAT_JUMPS", "PAT_THROWS", "PAT_MULTI",
             "PAT_RACES_FOR_DISTANCE", "PAT_HIGHSCORING_EVENT", "PAT_LOWSCORING_EVENT"}
Kinds == <<"PAT_TIMED_EVENT", "PAT_FIELD", "PAT_MULTI", "PAT_RACES_FOR_DISTANCE">>

Clauses(A) ==
    (IF In(A, "PAT_EVENT_CODE") = AnyOf(A, Families) THEN {} ELSE {"event_code_is_union_of_families"})
    \cup (IF In(A, "PAT_RUN") = AnyOf(A, {"PAT_TRACK", "PAT_ROAD", "PAT_RELAYS"}) THEN {} ELSE {"run_is_union"})
    \cup (IF In(A, "PAT_FIELD") = AnyOf(A, {"PAT_THROWS", "PAT_JUMPS"}) THEN {} ELSE {"field_is_union"})
    \cup (IF In(A, "PAT_JUMPS") = AnyOf(A, {"PAT_VERTICAL_JUMPS", "PAT_HORIZONTAL_JUMPS"}) THEN {} ELSE {"jumps_is_union"})
    \cup (IF In(A, "PAT_LENGTH_EVENT") = AnyOf(A, {"PAT_HORIZONTAL_JUMPS", "PAT_THROWS"}) THEN {} ELSE {"length_event_is_union"})
    \cup (IF In(A, "PAT_TIMED_EVENT") = AnyOf(A, {"PAT_TRACK", "PAT_HURDLES", "PAT_ROAD", "PAT_RELAYS"}) THEN {} ELSE {"timed_event_is_union"})
    \cup (IF In(A, "PAT_FINISH_RECORD") = AnyOf(A, {"PAT_PERF", "PAT_FINISHED", "PAT_NOT_FINISHED"}) THEN {} ELSE {"finish_record_is_union"})
    \cup (IF \A i, j \in DOMAIN Kinds : i < j => ~(In(A, Kinds[i]) /\ In(A, Kinds[j])) THEN {} ELSE {"measurement_kinds_disjoint"})
    \* first-match classification (athlon_score.score / unit_name, AgeGrader.event_code_to_kind):
    \* metres (throw / jump) and seconds (track / road) never both
    \cup (IF ~(AnyOf(A, {"PAT_THROWS", "PAT_JUMPS"}) /\ AnyOf(A, {"PAT_TRACK", "PAT_ROAD"})) THEN {} ELSE {"first_match_unit_order_independent"})

\* one line per product state: witness, acceptance, broken clauses, acceptance after every class
EmitState == PrintT("@@" \o ToJson([w |-> w, acc |-> Accepted, bad |-> Clauses(Accepted),
                                    nxt |-> [c \in 1..NClasses |-> AccAfter(c)]]))
NoBrokenClause == Clauses(Accepted) = {}
=============================================================================
