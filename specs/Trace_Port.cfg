SPECIFICATION Spec
INVARIANT Checked
CHECK_DEADLOCK FALSE
