SPECIFICATION Spec
CONSTANTS
 Threads = {1, 2}
 NRows = 2
 NAges = 2
 Locked = FALSE
INVARIANT Linearizable
