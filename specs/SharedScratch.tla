--------------------------- MODULE SharedScratch ---------------------------
(***************************************************************************)
(* C16, sub-model "per-call scratch on a shared object": AgeGrader keeps   *)
(* the row / age indices of the current lookup on the instance (find_age,  *)
(* find_row_by_event / _by_distance write them, calculate_factor and       *)
(* world_best read them back), and athlib shares one instance per table.   *)
(*   Locked = FALSE : the code as it was - refuted by TLC                  *)
(*   Locked = TRUE  : after "fix: shared age graders leaked per-call       *)
(*                    scratch between concurrent callers" (RLock)          *)
(***************************************************************************)
EXTENDS Naturals, FiniteSets, TLC
CONSTANTS Threads, NRows, NAges, Locked
None == 0

(* --algorithm SharedScratch {
  variables fx = None, ax = None, owner = None, depth = 0,
            result = [t \in Threads |-> <<None, None>>];
  process (T \in Threads)
    variables row \in 1..NRows, age \in 1..NAges;
  {
   acq:    if (Locked) { await owner \in {None, self}; owner := self; depth := depth + 1 };
   fage:   ax := age;                          \* find_age: self._ax = ...
   frow:   fx := row;                          \* find_row_by_event: self._fx = ...
   read:   result[self] := <<fx, ax>>;         \* fx = self._fx ... FX[ax]
   rel:    if (Locked) { depth := depth - 1; if (depth = 0) { owner := None } };
  }
} *)
\* BEGIN TRANSLATION
VARIABLES pc, fx, ax, owner, depth, result, row, age

vars == << pc, fx, ax, owner, depth, result, row, age >>

ProcSet == (Threads)

Init == (* Global variables *)
        /\ fx = None
        /\ ax = None
        /\ owner = None
        /\ depth = 0
        /\ result = [t \in Threads |-> <<None, None>>]
        (* Process T *)
        /\ row \in [Threads -> 1..NRows]
        /\ age \in [Threads -> 1..NAges]
        /\ pc = [self \in ProcSet |-> "acq"]

acq(self) == /\ pc[self] = "acq"
             /\ IF Locked
                   THEN /\ owner \in {None, self}
                        /\ owner' = self
                        /\ depth' = depth + 1
                   ELSE /\ TRUE
                        /\ UNCHANGED << owner, depth >>
             /\ pc' = [pc EXCEPT ![self] = "fage"]
             /\ UNCHANGED << fx, ax, result, row, age >>

fage(self) == /\ pc[self] = "fage"
              /\ ax' = age[self]
              /\ pc' = [pc EXCEPT ![self] = "frow"]
              /\ UNCHANGED << fx, owner, depth, result, row, age >>

frow(self) == /\ pc[self] = "frow"
              /\ fx' = row[self]
              /\ pc' = [pc EXCEPT ![self] = "read"]
              /\ UNCHANGED << ax, owner, depth, result, row, age >>

read(self) == /\ pc[self] = "read"
              /\ result' = [result EXCEPT ![self] = <<fx, ax>>]
              /\ pc' = [pc EXCEPT ![self] = "rel"]
              /\ UNCHANGED << fx, ax, owner, depth, row, age >>

rel(self) == /\ pc[self] = "rel"
             /\ IF Locked
                   THEN /\ depth' = depth - 1
                        /\ IF depth' = 0
                              THEN /\ owner' = None
                              ELSE /\ TRUE
                                   /\ owner' = owner
                   ELSE /\ TRUE
                        /\ UNCHANGED << owner, depth >>
             /\ pc' = [pc EXCEPT ![self] = "Done"]
             /\ UNCHANGED << fx, ax, result, row, age >>

T(self) == acq(self) \/ fage(self) \/ frow(self) \/ read(self) \/ rel(self)

(* Allow infinite stuttering to prevent deadlock on termination. *)
Terminating == /\ \A self \in ProcSet: pc[self] = "Done"
               /\ UNCHANGED vars

Next == (\E self \in Threads: T(self))
           \/ Terminating

Spec == Init /\ [][Next]_vars

Termination == <>(\A self \in ProcSet: pc[self] = "Done")

\* END TRANSLATION

Linearizable == \A t \in Threads : pc[t] = "Done" => result[t] = <<row[t], age[t]>>
=============================================================================
