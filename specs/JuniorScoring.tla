---------------------------- MODULE JuniorScoring ----------------------------
(***************************************************************************)
(* C11 / C05 - table-based junior scoring (Tyrving, QuadKids, Sportshall,  *)
(* Bulgarian U16) as exact integer arithmetic on centi-marks.              *)
(* JuniorRef holds the pinned published tables (refdata/).                 *)
(* NoScore = the function refuses (unknown table / age outside the table). *)
(***************************************************************************)
EXTENDS Naturals, Integers, Sequences, FiniteSets, TLC, JuniorRef

NoScore == -1
Idx(keys, k) == IF \E i \in DOMAIN keys : keys[i] = k THEN CHOOSE i \in DOMAIN keys : keys[i] = k ELSE 0
Max0(x) == IF x < 0 THEN 0 ELSE x
Clamp(x, lo, hi) == IF x < lo THEN lo ELSE IF x > hi THEN hi ELSE x

(* ---------------------------------------------------------------- Tyrving *)
\* increment (centiseconds) added to a hand-timed mark, by distance
ManualInc(dist) == IF dist \in {100, 110, 200} THEN 24 ELSE IF dist \in {40, 60, 80, 300} THEN 20
                   ELSE IF dist = 400 THEN 14 ELSE 0
AgeIdx(t, age) == age - t.y0 + 1
TyrvingT(t, age, vc, manual) ==
    LET i == AgeIdx(t, age) IN
    IF i < 1 \/ i > Len(t.l0) THEN NoScore
    ELSE CASE t.kind = "race" ->
                LET v == vc + (IF manual THEN ManualInc(t.dist) ELSE 0)
                    d == t.l0[i] - v
                IN Max0(1000 + (IF t.dist <= 500 THEN (d * t.m[1]) \div 100 ELSE (d * t.m[1]) \div 1000))
           [] t.kind = "jump" -> Max0(1000 + (t.m[1] * (vc - t.l0[i])) \div 10)
           [] t.kind = "stav" ->
                LET d0 == vc - t.l0[i]
                    d1 == vc - t.l1[i]
                    x100 == IF d0 >= 0 THEN d0 * t.m[1] ELSE IF d1 > 0 THEN d0 * t.m[2]
                            ELSE d1 * t.m[3] + (t.l2[i] - 1000) * 100
                IN Max0(1000 + x100 \div 100)
Tyrving(g, ev, age, vc, manual) == LET k == Idx(TyKeys, g \o "|" \o ev) IN
                                   IF k = 0 THEN NoScore ELSE TyrvingT(TyTab[k], age, vc, manual)

(* --------------------------------------------------------------- QuadKids *)
QkidsT(t, vc) == Clamp(10 + (IF t.run THEN t.base - vc ELSE vc - t.base) \div t.step, 10, 100)
Qkids(ct, ev, vc) == LET k == Idx(QkKeys, ct \o "|" \o ev) IN IF k = 0 THEN NoScore ELSE QkidsT(QkTab[k], vc)

(* ------------------------------------------------------------- Sportshall *)
\* the published table: the greatest points value whose threshold the mark reaches; beyond the
\* best row, incpts points per whole increment
Reached(t, i, vc) == IF t.high THEN t.thr[i] <= vc ELSE t.thr[i] >= vc
SportshallT(t, vc) ==
    LET n == Len(t.thr)
        beyond == IF t.high THEN vc - t.thr[n] ELSE t.thr[n] - vc
        R == {i \in 1..n : Reached(t, i, vc)}
    IN IF beyond > 0 THEN t.pts[n] + (IF t.inc4 = 0 THEN 0 ELSE ((beyond * 100) \div t.inc4) * t.incpts)
       ELSE IF R = {} THEN 0
       ELSE t.pts[CHOOSE i \in R : \A j \in R : t.pts[j] <= t.pts[i]]
Sportshall(ev, vc) == LET k == Idx(ShKeys, ev) IN IF k = 0 THEN NoScore ELSE SportshallT(ShTab[k], vc)
\* a table is ordered when better marks never have fewer points (ties of thresholds are disorder:
\* two different points values for one mark)
ShOrdered(t) == \A i \in 1..(Len(t.thr) - 1) : t.pts[i] < t.pts[i + 1] /\
                    (IF t.high THEN t.thr[i] < t.thr[i + 1] ELSE t.thr[i] > t.thr[i + 1])

(* -------------------------------------------------------------- Bulgarian *)
BulgarianT(t, vc) ==
    IF t.timed THEN (IF vc > t.hi THEN 0 ELSE IF vc < t.lo THEN 150 ELSE t.pts[vc - t.lo + 1])
    ELSE (IF vc < t.lo THEN 0 ELSE IF vc > t.hi THEN 150 ELSE t.pts[vc - t.lo + 1])
Bulgarian(key, vc) == LET k == Idx(BgKeys, key) IN IF k = 0 THEN NoScore ELSE BulgarianT(BgTab[k], vc)
BgOrdered(t) == \A i \in 1..(Len(t.pts) - 1) : IF t.timed THEN t.pts[i] >= t.pts[i + 1] ELSE t.pts[i] <= t.pts[i + 1]

(* ------------------------------------------------- one entry point by system *)
\* q: [sys, key, age, manual]; returns the reference points of centi-mark vc
Ref(q, vc) ==
    CASE q.sys = "tyrving" -> LET k == Idx(TyKeys, q.key) IN IF k = 0 THEN NoScore ELSE TyrvingT(TyTab[k], q.age, vc, q.manual)
      [] q.sys = "qkids" -> LET k == Idx(QkKeys, q.key) IN IF k = 0 THEN NoScore ELSE QkidsT(QkTab[k], vc)
      [] q.sys = "sportshall" -> Sportshall(q.key, vc)
      [] q.sys = "bulgarian" -> Bulgarian(q.key, vc)
\* is a larger centi-mark better?
HigherBetter(q) ==
    CASE q.sys = "tyrving" -> TyTab[Idx(TyKeys, q.key)].kind # "race"
      [] q.sys = "qkids" -> ~QkTab[Idx(QkKeys, q.key)].run
      [] q.sys = "sportshall" -> ShTab[Idx(ShKeys, q.key)].high
      [] q.sys = "bulgarian" -> ~BgTab[Idx(BgKeys, q.key)].timed
Known(q) == CASE q.sys = "tyrving" -> Idx(TyKeys, q.key) # 0 [] q.sys = "qkids" -> Idx(QkKeys, q.key) # 0
              [] q.sys = "sportshall" -> Idx(ShKeys, q.key) # 0 [] q.sys = "bulgarian" -> Idx(BgKeys, q.key) # 0
Bounds(q, p) == CASE q.sys = "qkids" -> p >= 10 /\ p <= 100 [] q.sys = "bulgarian" -> p >= 0 /\ p <= 150 [] OTHER -> p >= 0
=============================================================================
