---------------------------- MODULE LazyPublish ----------------------------
(***************************************************************************)
(* C16, sub-model "lazily built table": athlon_score._scoring_objects,     *)
(* hungarian_score._table (and, trivially, sportshall._DB / AgeGrader._data*)
(* which were always published atomically).  One label per source line     *)
(* that reads or writes the shared global.                                 *)
(*   PublishFirst = TRUE  : the code as it was (bind an empty dict, then   *)
(*                          fill it through the global) - refuted by TLC   *)
(*   PublishFirst = FALSE : after "fix: lazily built scoring tables were   *)
(*                          published before they were filled"             *)
(***************************************************************************)
EXTENDS Naturals, FiniteSets, TLC
CONSTANTS Threads, NRows, PublishFirst

(* --algorithm LazyPublish {
  variables pub = FALSE,                 \* the global is not None
            rows = {},                   \* rows present in the published dict
            result = [t \in Threads |-> "pending"];
  process (T \in Threads)
    variables mine = {}, i = 1, want \in 1..NRows;
  {
   test:  if (~pub) {
             if (PublishFirst) {
   pubE:        pub := TRUE; rows := {};
   fill:        while (i <= NRows) { rows := rows \cup {i}; i := i + 1 };
             } else {
   build:       while (i <= NRows) { mine := mine \cup {i}; i := i + 1 };
   publish:     rows := mine; pub := TRUE;
             }
          };
   look:  result[self] := IF pub /\ want \in rows THEN "found" ELSE "missing";
  }
} *)
\* BEGIN TRANSLATION
VARIABLES pc, pub, rows, result, mine, i, want

vars == << pc, pub, rows, result, mine, i, want >>

ProcSet == (Threads)

Init == (* Global variables *)
        /\ pub = FALSE
        /\ rows = {}
        /\ result = [t \in Threads |-> "pending"]
        (* Process T *)
        /\ mine = [self \in Threads |-> {}]
        /\ i = [self \in Threads |-> 1]
        /\ want \in [Threads -> 1..NRows]
        /\ pc = [self \in ProcSet |-> "test"]

test(self) == /\ pc[self] = "test"
              /\ IF ~pub
                    THEN /\ IF PublishFirst
                               THEN /\ pc' = [pc EXCEPT ![self] = "pubE"]
                               ELSE /\ pc' = [pc EXCEPT ![self] = "build"]
                    ELSE /\ pc' = [pc EXCEPT ![self] = "look"]
              /\ UNCHANGED << pub, rows, result, mine, i, want >>

pubE(self) == /\ pc[self] = "pubE"
              /\ pub' = TRUE
              /\ rows' = {}
              /\ pc' = [pc EXCEPT ![self] = "fill"]
              /\ UNCHANGED << result, mine, i, want >>

fill(self) == /\ pc[self] = "fill"
              /\ IF i[self] <= NRows
                    THEN /\ rows' = (rows \cup {i[self]})
                         /\ i' = [i EXCEPT ![self] = i[self] + 1]
                         /\ pc' = [pc EXCEPT ![self] = "fill"]
                    ELSE /\ pc' = [pc EXCEPT ![self] = "look"]
                         /\ UNCHANGED << rows, i >>
              /\ UNCHANGED << pub, result, mine, want >>

build(self) == /\ pc[self] = "build"
               /\ IF i[self] <= NRows
                     THEN /\ mine' = [mine EXCEPT ![self] = mine[self] \cup {i[self]}]
                          /\ i' = [i EXCEPT ![self] = i[self] + 1]
                          /\ pc' = [pc EXCEPT ![self] = "build"]
                     ELSE /\ pc' = [pc EXCEPT ![self] = "publish"]
                          /\ UNCHANGED << mine, i >>
               /\ UNCHANGED << pub, rows, result, want >>

publish(self) == /\ pc[self] = "publish"
                 /\ rows' = mine[self]
                 /\ pub' = TRUE
                 /\ pc' = [pc EXCEPT ![self] = "look"]
                 /\ UNCHANGED << result, mine, i, want >>

look(self) == /\ pc[self] = "look"
              /\ result' = [result EXCEPT ![self] = IF pub /\ want[self] \in rows THEN "found" ELSE "missing"]
              /\ pc' = [pc EXCEPT ![self] = "Done"]
              /\ UNCHANGED << pub, rows, mine, i, want >>

T(self) == test(self) \/ pubE(self) \/ fill(self) \/ build(self)
              \/ publish(self) \/ look(self)

(* Allow infinite stuttering to prevent deadlock on termination. *)
Terminating == /\ \A self \in ProcSet: pc[self] = "Done"
               /\ UNCHANGED vars

Next == (\E self \in Threads: T(self))
           \/ Terminating

Spec == Init /\ [][Next]_vars

Termination == <>(\A self \in ProcSet: pc[self] = "Done")

\* END TRANSLATION

\* every call returns what a single-threaded program returns: the row is found
Linearizable == \A t \in Threads : result[t] \in {"pending", "found"}
\* what other threads can observe of the table: nothing, or all of it
AtomicTable == pub => rows = 1..NRows
=============================================================================
