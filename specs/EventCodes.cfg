SPECIFICATION Spec
VIEW View
INVARIANT EmitState
CHECK_DEADLOCK FALSE
