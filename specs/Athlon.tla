------------------------------- MODULE Athlon -------------------------------
(***************************************************************************)
(* C01 / C09 / C05 - World Athletics combined-events scoring               *)
(* (athlib.athlon_score.score / performance) in exact integer arithmetic.  *)
(*                                                                         *)
(* A mark is an integer number of 0.01 units (centiseconds / centimetres). *)
(* AthlonRef!Thr[k][p] is the least distance n from the zero point (grid   *)
(* units; whole centimetres for jumps) worth at least p points, computed   *)
(* exactly (refdata/gen_athlon_ref.py); everything else - rounding, age    *)
(* bands, remapping, the ESAA override, the inverse - is done here.        *)
(***************************************************************************)
EXTENDS Naturals, Integers, Sequences, FiniteSets, TLC, AthlonRef

KeyIdx(key) == IF \E i \in DOMAIN Keys : Keys[i] = key THEN CHOOSE i \in DOMAIN Keys : Keys[i] = key ELSE 0

\* floor / ceiling of a * b / 10000 without leaving 32 bits
MulDiv(a, b, up) ==
    LET m == 10000
        qa == a \div m   ra == a % m
        qb == b \div m   rb == b % m
        low == ra * rb
    IN qa * qb * m + qa * rb + ra * qb + low \div m + (IF up /\ low % m # 0 THEN 1 ELSE 0)

\* number of thresholds t with t <= n (binary search; Thr[k] is non-decreasing)
RECURSIVE CountLE(_, _, _, _)
CountLE(thr, n, lo, hi) ==        \* invariant: thr[1..lo] <= n < thr[hi+1..]
    IF lo = hi THEN lo
    ELSE LET mid == (lo + hi + 1) \div 2 IN
         IF thr[mid] <= n THEN CountLE(thr, n, mid, hi) ELSE CountLE(thr, n, lo, mid - 1)

\* points of centi-mark c (already age adjusted) under key index k
PointsAt(k, c) ==
    LET n == IF KindOf[k] = "track" THEN ZeroOf[k] - c
             ELSE IF KindOf[k] = "jump" THEN c - ZeroOf[k]      \* centimetres
             ELSE c - ZeroOf[k]
    IN IF n <= 0 THEN 0 ELSE CountLE(Thr[k], n, 0, Len(Thr[k]))

\* the reference is exact for marks up to NMaxOf grid units beyond the zero point (the sweep limit)
InRange(k, c) == (IF KindOf[k] = "track" THEN ZeroOf[k] - c ELSE c - ZeroOf[k]) <= NMaxOf[k]

\* --- age factor -------------------------------------------------------------
\* hurdles use the short / long hurdles rows; "60H" has its own
IsHurdles(e) == e \in {"80H", "100H", "110H", "200H", "300H", "400H"}
FactorEvent(e) == IF e \in {"80H", "100H", "110H"} THEN "SH" ELSE IF e \in {"200H", "300H", "400H"} THEN "LH" ELSE e
HasFactor(e) == \E i \in DOMAIN FactorEvents : FactorEvents[i] = FactorEvent(e)
\* factor x 10^4 for gender g ("M"/"F"), integer age and event; 10000 below the first band
Factor(g, age, e) ==
    IF age < FactorAges[1] THEN 10000
    ELSE LET band == (age \div 5) * 5
             col == IF band >= FactorAges[Len(FactorAges)] THEN Len(FactorAges)
                    ELSE CHOOSE i \in DOMAIN FactorAges : FactorAges[i] = band
             row == CHOOSE i \in DOMAIN FactorEvents : FactorEvents[i] = FactorEvent(e)
         IN IF g = "M" THEN FactorsM[row][col] ELSE FactorsF[row][col]

\* a scored event for which the masters table has no row, asked at a masters age: what to do is not specified (lenient);
\* below the first band the score is unadjusted whether or not the table knows the event
NoFactorRegion(e, age) == age >= FactorAges[1] /\ ~HasFactor(e)

\* --- the score --------------------------------------------------------------
\* veterans' short hurdles are scored on the 100H / 110H row
ScoreEvent(g, e) == IF g = "F" /\ e = "80H" THEN "100H" ELSE IF g = "M" /\ e \in {"80H", "100H"} THEN "110H" ELSE e
ScoreKey(g, e, esaa) == LET k == g \o "-" \o ScoreEvent(g, e) IN
                        IF esaa /\ k = "M-800" THEN "M-800-ESAA" ELSE k
NoScore == -1
\* age = 0 stands for "no age given"
Score(g, e, c, age, esaa) ==
    LET k == KeyIdx(ScoreKey(g, e, esaa)) IN
    IF k = 0 THEN NoScore
    ELSE IF NoFactorRegion(e, age) THEN NoScore
    ELSE LET f == IF age < FactorAges[1] THEN 10000 ELSE Factor(g, age, e)
             adj == MulDiv(c, f, KindOf[k] = "track")      \* times rounded up, distances down
         IN PointsAt(k, adj)

\* is the reference defined (exact) for this input?
Covered(g, e, c, age, esaa) ==
    LET k == KeyIdx(ScoreKey(g, e, esaa)) IN
    k = 0 \/ NoFactorRegion(e, age) \/
    InRange(k, MulDiv(c, IF age < FactorAges[1] THEN 10000 ELSE Factor(g, age, e), KindOf[k] = "track"))

\* --- the inverse (C09) ------------------------------------------------------
\* the least-demanding centi-mark worth at least t points (t >= 1); for t <= 0 the zero point
Needed(k, t) == IF t <= 0 THEN ZeroOf[k]
                ELSE IF KindOf[k] = "track" THEN ZeroOf[k] - Thr[k][t] ELSE ZeroOf[k] + Thr[k][t]
Worse(k, c) == IF KindOf[k] = "track" THEN c + 1 ELSE c - 1
\* observed: perf (centi-mark returned), sAt = library score of it, sWorse = library score of the
\* next-worse grid mark
NeededFail(t, sAt, sWorse) ==
    LET tp == IF t < 0 THEN 0 ELSE t IN
    (IF sAt >= tp THEN {} ELSE {"needed_mark_scores_less_than_target"})
    \cup (IF tp >= 1 /\ sWorse >= tp THEN {"next_worse_mark_also_reaches_target"} ELSE {})
=============================================================================
