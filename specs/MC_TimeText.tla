---------------------------- MODULE MC_TimeText ----------------------------
(* Model run for C06: the transcribed algorithms against the arithmetic        *)
(* definitions on the whole (reduced-alphabet) domain.                         *)
EXTENDS TimeText
CONSTANTS Alpha,      \* digit alphabet for fraction strings, e.g. {0, 1, 4, 5, 9}
          MaxFrac     \* longest fraction string
VARIABLES ip, fp, dot, prec, phase

IntParts == {<<>>, <<0>>, <<9>>, <<0, 0>>, <<0, 9>>, <<1, 0>>, <<9, 9>>, <<1, 2, 3>>, <<9, 9, 9>>, <<0, 9, 9, 9>>,
             <<9, 9, 9, 9>>, <<1, 9, 9, 9>>, <<4, 5, 0, 0>>}
Init == ip \in IntParts /\ fp = <<>> /\ dot \in BOOLEAN /\ prec \in 0..5 /\ phase = "grow"
\* the domain is generated through Next from few initial states so that all workers share the work
Next == /\ phase = "grow" /\ dot /\ Len(fp) < MaxFrac
        /\ \E d \in Alpha : fp' = Append(fp, d)
        /\ UNCHANGED <<ip, dot, prec, phase>>
Spec == Init /\ [][Next]_<<ip, fp, dot, prec, phase>>

MechMatchesArithmetic ==
    (Len(ip) + Len(fp) >= 1) =>
        LET m == RoundUpMech(ip, fp, dot, prec) IN
        RoundUpOK(ip, fp, prec, [ok |-> TRUE, ip |-> m[1], fp |-> m[2], dot |-> prec > 0])
\* format: the mechanism's text satisfies the relation, on a grid of carry classes
FormatMechOK ==
    \A w \in {0, 59, 60, 3599, 3600, 35999, 359999} : \A p \in 0..3 :
        LET f5 == Val(PadTo(fp, 5))
            m == FormatMech(w, f5, p)
            fields == IF m[1] > 0 THEN <<m[1], m[2], m[3]>> ELSE IF m[2] > 0 THEN <<m[2], m[3]>> ELSE <<m[3]>>
            out == [ok |-> TRUE, fields |-> fields, widths |-> [i \in DOMAIN fields |-> 2],
                    fd |-> IF p = 0 THEN <<>> ELSE PadTo(StripLeadingZeros(<<>>), 0) \o
                           [i \in 1..p |-> (m[4] \div P10(p - i)) % 10], dot |-> p > 0]
        IN FormatFail(w, f5, FALSE, p, out) = {}
=============================================================================
