SPECIFICATION Spec
INVARIANT Checked
INVARIANT ParabolaTheorem
CHECK_DEADLOCK FALSE
