SPECIFICATION Spec
CONSTANTS
 FirstDay = 737791
 LastDay = 739251
 Stride = 29
INVARIANT Theorems
CHECK_DEADLOCK FALSE
