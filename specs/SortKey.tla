------------------------------- MODULE SortKey -------------------------------
(***************************************************************************)
(* C10 - programme-order sort keys, distance estimates and classifiers     *)
(* for event codes.  Built on CodeText (membership, families).             *)
(***************************************************************************)
EXTENDS CodeText, Integers

IsDigit(cp) == cp >= 48 /\ cp <= 57
Upper(cp) == IF cp >= 97 /\ cp <= 122 THEN cp - 32 ELSE cp
W(s) == LET t == SelectSeq(s, LAMBDA cp : ~IsSpace(cp)) IN [i \in DOMAIN t |-> Upper(t[i])]   \* no whitespace, upper case
RECURSIVE LeadDigits(_)
LeadDigits(s) == IF s # <<>> /\ IsDigit(Head(s)) THEN <<Head(s) - 48>> \o LeadDigits(Tail(s)) ELSE <<>>
RECURSIVE ValD(_, _)
ValD(ds, acc) == IF ds = <<>> THEN acc ELSE ValD(Tail(ds), 10 * acc + Head(ds))
HasCp(s, cp) == \E i \in DOMAIN s : s[i] = cp
EndsWith(s, t) == Len(s) >= Len(t) /\ SubSeq(s, Len(s) - Len(t) + 1, Len(s)) = t
AsciiOnly(s) == \A i \in DOMAIN s : s[i] < 128

\* categories the statement allows for a code (set-valued where its families overlap)
Categories(s) ==
    LET F == Families(s)
        w == W(s)
        hurdleLike == HasCp(w, 72) \/ EndsWith(w, <<83, 67>>)         \* an H, or ...SC
    IN (IF "PAT_TRACK" \in F THEN (IF hurdleLike THEN {2} ELSE {1}) ELSE {})
       \cup (IF "PAT_HURDLES" \in F THEN {2} ELSE {})
       \cup (IF "PAT_JUMPS" \in F THEN {3} ELSE {})
       \cup (IF "PAT_THROWS" \in F THEN {4} ELSE {})
       \cup (IF "PAT_RELAYS" \in F THEN {5} ELSE {})
       \cup (IF F \cap {"PAT_ROAD", "PAT_MULTI", "PAT_RACES_FOR_DISTANCE", "PAT_HIGHSCORING_EVENT", "PAT_LOWSCORING_EVENT"} # {} THEN {6} ELSE {})

\* the distance a track / hurdles code states (metres), -1 when the code carries no number
StatedDistance(s) ==
    LET w == W(s)
        ds == LeadDigits(w)
        rest == SubSeq(w, Len(ds) + 1, Len(w))
        mile == <<77, 73, 76, 69>>
    IN IF ds = <<>> THEN (IF w = mile THEN 1609 ELSE -1)
       ELSE IF (Len(rest) >= 4 /\ SubSeq(rest, 1, 4) = mile) \/ rest = <<77, 84>> THEN 1609 * ValD(ds, 0)   \* 2MILE.., 2MT
       ELSE IF Len(ds) > 6 THEN -1
       ELSE ValD(ds, 0)

\* relay "NxLEG": number of legs and the leg distance when the leg is a bare integer (optionally + H)
RelayParts(s) ==
    LET w == W(s)
        n == LeadDigits(w)
        after == SubSeq(w, Len(n) + 2, Len(w))        \* skip the X
        leg == LeadDigits(after)
        tail == SubSeq(after, Len(leg) + 1, Len(after))
    IN [legs |-> ValD(n, 0), leg |-> IF leg # <<>> /\ Len(leg) <= 5 /\ tail \in {<<>>, <<72>>} THEN ValD(leg, 0) ELSE -1]

\* lexicographic order on code-point sequences (= Python str order)
RECURSIVE LexLess(_, _)
LexLess(a, b) == IF b = <<>> THEN FALSE ELSE IF a = <<>> THEN TRUE
                 ELSE IF Head(a) # Head(b) THEN Head(a) < Head(b) ELSE LexLess(Tail(a), Tail(b))
KeyLess(k1, k2) == k1.cat < k2.cat \/ (k1.cat = k2.cat /\ (k1.num < k2.num \/ (k1.num = k2.num /\ LexLess(k1.txt, k2.txt))))
KeyEq(k1, k2) == k1.cat = k2.cat /\ k1.num = k2.num /\ k1.txt = k2.txt
=============================================================================
