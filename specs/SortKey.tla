------------------------------- MODULE SortKey -------------------------------
(***************************************************************************)
(* C10 - programme-order sort keys, distance estimates and classifiers     *)
(* for event codes.  Built on CodeText (membership, families).             *)
(***************************************************************************)
EXTENDS CodeText, Integers

IsDigit(cp) == cp >= 48 /\ cp <= 57
Upper(cp) == IF cp >= 97 /\ cp <= 122 THEN cp - 32 ELSE cp
W(s) == LET t == SelectSeq(s, LAMBDA cp : ~IsSpace(cp)) IN [i \in DOMAIN t |-> Upper(t[i])]   \* no whitespace, upper case
RECURSIVE LeadDigits(_)
LeadDigits(s) == IF s # <<>> /\ IsDigit(Head(s)) THEN <<Head(s) - 48>> \o LeadDigits(Tail(s)) ELSE <<>>
RECURSIVE ValD(_, _)
ValD(ds, acc) == IF ds = <<>> THEN acc ELSE ValD(Tail(ds), 10 * acc + Head(ds))
HasCp(s, cp) == \E i \in DOMAIN s : s[i] = cp
EndsWith(s, t) == Len(s) >= Len(t) /\ SubSeq(s, Len(s) - Len(t) + 1, Len(s)) = t
AsciiOnly(s) == \A i \in DOMAIN s : s[i] < 128

\* categories the statement allows for a code (set-valued where its families overlap)
Categories(s) ==
    LET F == Families(s)
        w == W(s)
        hurdleLike == HasCp(w, 72) \/ EndsWith(w, <<83, 67>>)         \* an H, or ...SC
    IN (IF "PAT_TRACK" \in F THEN (IF hurdleLike THEN {2} ELSE {1}) ELSE {})
       \cup (IF "PAT_HURDLES" \in F THEN {2} ELSE {})
       \cup (IF "PAT_JUMPS" \in F THEN {3} ELSE {})
       \cup (IF "PAT_THROWS" \in F THEN {4} ELSE {})
       \cup (IF "PAT_RELAYS" \in F THEN {5} ELSE {})
       \cup (IF F \cap {"PAT_ROAD", "PAT_MULTI", "PAT_RACES_FOR_DISTANCE", "PAT_HIGHSCORING_EVENT", "PAT_LOWSCORING_EVENT"} # {} THEN {6} ELSE {})

\* the distance a track / hurdles code states (metres), -1 when the code carries no number
StatedDistance(s) ==
    LET w == W(s)
        ds == LeadDigits(w)
        rest == SubSeq(w, Len(ds) + 1, Len(w))
        mile == <<77, 73, 76, 69>>
    IN IF ds = <<>> THEN (IF w = mile THEN 1609 ELSE -1)
       ELSE IF (Len(rest) >= 4 /\ SubSeq(rest, 1, 4) = mile) \/ rest = <<77, 84>> THEN 1609 * ValD(ds, 0)   \* 2MILE.., 2MT
       ELSE IF Len(ds) > 6 THEN -1
       ELSE ValD(ds, 0)

\* relay "NxLEG": number of legs and the leg distance in metres, for the numeric legs PAT_RELAYS accepts
\* (digits[.digits] optionally followed by H, K or M).  get_distance computes int(float(qty) * unit) in binary
\* floating point, so with a decimal point the truncated result may be one metre short of the exact value:
\* the leg is exact - tol .. exact.  leg = -1: not a numeric leg / outside the range modelled (32-bit TLC ints).
RECURSIVE PadMilli(_, _)
PadMilli(fr, n) == IF n = 0 THEN <<>> ELSE IF fr = <<>> THEN <<0>> \o PadMilli(fr, n - 1) ELSE <<Head(fr)>> \o PadMilli(Tail(fr), n - 1)
RelayParts(s) ==
    LET w == W(s)
        n == LeadDigits(w)
        after == SubSeq(w, Len(n) + 2, Len(w))        \* skip the X
        ip == LeadDigits(after)
        r1 == SubSeq(after, Len(ip) + 1, Len(after))
        dot == r1 # <<>> /\ Head(r1) = 46
        fr == IF dot THEN LeadDigits(Tail(r1)) ELSE <<>>
        tail == IF dot THEN SubSeq(r1, Len(fr) + 2, Len(r1)) ELSE r1
        milli == ValD(ip, 0) * 1000 + ValD(PadMilli(fr, 3), 0)      \* thousandths, truncated
        tol == IF dot THEN 1 ELSE 0
        none == [legs |-> ValD(n, 0), leg |-> -1, tol |-> 0]
    IN IF ip = <<>> \/ (dot /\ fr = <<>>) THEN none
       ELSE IF tail \in {<<>>, <<72>>} THEN (IF Len(ip) <= 5 THEN [legs |-> ValD(n, 0), leg |-> ValD(ip, 0), tol |-> 0] ELSE none)
       ELSE IF tail = <<75>> THEN (IF Len(ip) <= 3 THEN [legs |-> ValD(n, 0), leg |-> milli, tol |-> tol] ELSE none)
       ELSE IF tail = <<77>> THEN (IF Len(ip) <= 3 /\ Len(fr) <= 3 THEN [legs |-> ValD(n, 0), leg |-> (1609 * milli) \div 1000, tol |-> tol] ELSE none)
       ELSE none

\* lexicographic order on code-point sequences (= Python str order)
RECURSIVE LexLess(_, _)
LexLess(a, b) == IF b = <<>> THEN FALSE ELSE IF a = <<>> THEN TRUE
                 ELSE IF Head(a) # Head(b) THEN Head(a) < Head(b) ELSE LexLess(Tail(a), Tail(b))
KeyLess(k1, k2) == k1.cat < k2.cat \/ (k1.cat = k2.cat /\ (k1.num < k2.num \/ (k1.num = k2.num /\ LexLess(k1.txt, k2.txt))))
KeyEq(k1, k2) == k1.cat = k2.cat /\ k1.num = k2.num /\ k1.txt = k2.txt
=============================================================================
