-------------------------- MODULE Trace_SchemaCache --------------------------
(* Validation of recorded call histories of schema_valid / valid_against_schema *)
(* (one history per ndjson line, started from empty caches in its own process). *)
(* Each call record: fn ("sv"/"va"), k (key id), ef, out (observed outcome),    *)
(* fresh (outcome of the same call made first in a fresh process),              *)
(* svk / vak (observed cache key lists after the call).                         *)
(*   Monitor (C19):  out = fresh                                                *)
(*   Model step:     SchemaCache!Validate with MaxLen = 20                      *)
EXTENDS SchemaCache, Json, IOUtils
VARIABLES tid, l, sv, va

Trace == ndJsonDeserialize(IOEnv.TRACE_FILE)
MaxLen == 20

Report(kind, t, i, clauses) == PrintT("@@" \o ToJson([kind |-> kind, tid |-> t, l |-> i, clauses |-> clauses]))
Norm(out) == IF out \in {"True", "False"} THEN out
             ELSE IF out \in {"Raise:SchemaError", "Raise:ValidationError"} THEN "Raise" ELSE out
\* ground truth of the key, from the fresh-process outcome of the call with expect_failure = FALSE (c.fresh0)
Truth(c) == IF "fresh0" \notin DOMAIN c THEN (IF c.fresh = "True" THEN "valid" ELSE "invalid")
            ELSE IF c.fresh0 = "True" THEN "valid" ELSE IF c.fresh0 = "False" THEN "invalid" ELSE "broken"

Init == tid \in DOMAIN Trace /\ l = 0 /\ sv = <<>> /\ va = <<>>
Next == /\ l < Len(Trace[tid].calls)
        /\ l' = l + 1 /\ UNCHANGED tid
        /\ LET c == Trace[tid].calls[l + 1]
               r == Validate(IF c.fn = "sv" THEN sv ELSE va, c.k, c.ef, Truth(c), MaxLen)
               sv2 == IF c.fn = "sv" THEN r[2] ELSE sv
               va2 == IF c.fn = "va" THEN r[2] ELSE va
               viol == IF c.out = c.fresh THEN {} ELSE {"outcome_depends_on_history"}
               drift == (IF r[1] = Norm(c.out) THEN {} ELSE {"model_outcome"})
                        \* (c.obs: the implementation still keeps its memo dicts where the harness can list their keys)
                        \cup (IF ("obs" \in DOMAIN c /\ ~c.obs) \/ (Keys(sv2) = c.svk /\ Keys(va2) = c.vak) THEN {} ELSE {"model_cache_keys"})
           IN /\ sv' = sv2 /\ va' = va2
              /\ viol = {} \/ Report("viol", tid, l + 1, viol)
              /\ drift = {} \/ Report("drift", tid, l + 1, drift)
Spec == Init /\ [][Next]_<<tid, l, sv, va>>
CacheBounded == Len(sv) <= MaxLen /\ Len(va) <= MaxLen
=============================================================================
