SPECIFICATION Spec
INVARIANT ThresholdsSane
INVARIANT InverseExact
INVARIANT AdjustMonotone
INVARIANT BandRule
CHECK_DEADLOCK FALSE
