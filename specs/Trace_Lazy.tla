------------------------------ MODULE Trace_Lazy ------------------------------
(* Validation of executions of real athlib calls under the controlled          *)
(* line-level scheduler (C16).  One record per execution:                      *)
(*   results[i]  what thread i's call returned / raised under the schedule     *)
(*   expected[i] what the same call returns when made alone (single-threaded)  *)
(*   snaps       the set of abstract shared-state snapshots observed at the    *)
(*               switch points: "<athlon>,<hungarian>,<sportshall>" each       *)
(*               none / partial / full                                         *)
(* Monitor  (the property, verbatim): results = expected, thread by thread.    *)
(* Model    (LazyPublish!AtomicTable): a published table is never partial.     *)
EXTENDS Naturals, Sequences, TLC, Json, IOUtils
VARIABLES tid
Trace == ndJsonDeserialize(IOEnv.TRACE_FILE)
Report(kind, t, clauses) == PrintT("@@" \o ToJson([kind |-> kind, tid |-> t, clauses |-> clauses]))

Linearizable(r) == \A i \in DOMAIN r.results : r.results[i] = r.expected[i]
AtomicTables(r) == \A k \in DOMAIN r.snaps : \A j \in 1..(Len(r.snaps[k]) - 6) : SubSeq(r.snaps[k], j, j + 6) # "partial"

Check(t) == LET r == Trace[t] IN
            /\ Linearizable(r) \/ Report("viol", t, {"result_differs_from_single_threaded"})
            /\ AtomicTables(r) \/ Report("drift", t, {"partially_built_table_visible"})
Init == tid \in DOMAIN Trace
Next == UNCHANGED tid
Spec == Init /\ [][Next]_tid
Checked == Check(tid)
=============================================================================
