--------------------------- MODULE Trace_Implements ---------------------------
(* C17: observations of get_implement_weight / get_specific_event_code and the   *)
(* keys of the library's own tables.                                             *)
(*  k = "spec":  ev, g, ag (code points), w (weight text, "" unknown), code       *)
(*               (result or "" if it raised, out tells), norm (normalize(code))   *)
(*  k = "pass":  a code that is not one of SP DT HT JT WT: result must equal it   *)
(*  k = "band":  weights (centi) of one (event, gender) along V35, V40, ... V120  *)
(*  k = "key":   an event-code key of a scoring / age-grading table               *)
EXTENDS Implements, Json, IOUtils
VARIABLES tid
Trace == ndJsonDeserialize(IOEnv.TRACE_FILE)
Report(kind, t, clauses) == PrintT("@@" \o ToJson([kind |-> kind, tid |-> t, clauses |-> clauses]))
Viol(r) ==
    CASE r.k = "spec" ->
           IF r.w = <<>> THEN (IF r.produced THEN {"no_weight_for_label_the_library_produces"} ELSE {})
           ELSE (IF r.out = "ok" THEN {} ELSE {"specific_code_raised"})
                \cup (IF r.out # "ok" THEN {} ELSE
                       (IF Accepts("PAT_THROWS", r.code) THEN {} ELSE {"specific_code_not_a_throws_code"})
                       \cup (IF r.norm = r.code THEN {} ELSE {"specific_code_not_normalised"})
                       \cup (IF Centi(r.code) = Centi(r.w) THEN {} ELSE {"specific_code_weight_differs_from_table"})
                       \cup (IF Len(r.code) >= 2 /\ SubSeq(r.code, 1, 2) = r.ev THEN {} ELSE {"specific_code_changes_event"}))
      [] r.k = "pass" -> IF r.ev \in Throws5 \/ (r.out = "ok" /\ r.code = r.ev) THEN {} ELSE {"non_throw_code_not_passed_through"}
      [] r.k = "band" -> IF \A i \in 1..(Len(r.ws) - 1) : r.ws[i] > 0 /\ r.ws[i + 1] > 0 /\ r.ws[i] >= r.ws[i + 1]
                         THEN {} ELSE {"masters_implement_gets_heavier_or_undefined"}
      [] r.k = "key" -> IF IsCode(r.s) /\ r.chk THEN {} ELSE {"table_key_not_an_event_code"}
Check(t) == LET v == Viol(Trace[t]) IN v = {} \/ Report("viol", t, v)
Init == tid \in DOMAIN Trace
Next == UNCHANGED tid
Spec == Init /\ [][Next]_tid
Checked == Check(tid)
\* model theorems about the spec's own helpers
Theorems == /\ Centi(<<83, 80, 55, 46, 50, 54, 75>>) = 726 /\ Centi(<<74, 84, 56, 48, 48>>) = 80000 /\ Centi(<<52>>) = 400
            /\ Centi(<<72, 74>>) = -1 /\ BandOf(<<86, 49, 48, 48>>) = 100 /\ BandOf(<<86, 56, 48>>) = 80 /\ BandOf(<<85, 50, 48>>) = 0
            /\ BandOf(<<86, 49, 48, 48>>) > BandOf(<<86, 56, 48>>)
=============================================================================
