----------------------------- MODULE CacheEvict -----------------------------
(***************************************************************************)
(* C16, sub-model "bounded cache": utils._add_to_cache on a dict at its    *)
(* size limit.  The dict is a sequence of keys; a reversed-dict iterator   *)
(* remembers the size at creation and next() raises RuntimeError when the  *)
(* size has changed.  Lookup-before-insert is the single .get() read.      *)
(*   Locked = FALSE : the code as it was - refuted by TLC                  *)
(*   Locked = TRUE  : after "fix: validation caches were not safe for      *)
(*                    concurrent callers"                                  *)
(***************************************************************************)
EXTENDS Naturals, Sequences, FiniteSets, TLC
CONSTANTS Threads, MaxLen, Locked, Prefill
None == 0
PrefillDef == <<1, 2>>     \* the cache starts at its limit
Has(c, k) == \E j \in DOMAIN c : c[j] = k
\* a dict holds a key once: popping the key the iterator points at removes exactly that position
RemoveAt(c, i) == SubSeq(c, 1, i - 1) \o SubSeq(c, i + 1, Len(c))

(* --algorithm CacheEvict {
  variables cache = Prefill, lock = None,
            result = [t \in Threads |-> "pending"];
  process (T \in Threads)
    variables key \in (100 + 1)..(100 + 2), itsize = 0, itpos = 0;
  {
   get:    if (Has(cache, key)) { result[self] := "hit"; goto Done };
   acq:    if (Locked) { await lock = None; lock := self };
   mkit:   itsize := Len(cache); itpos := Len(cache);            \* it = reversed(c)
   loop:   while (Len(cache) >= MaxLen) {                        \* while len(c) >= maxlen:
   pop:       if (Len(cache) # itsize \/ itpos = 0) {            \*   c.pop(next(it))
                 result[self] := "RuntimeError"; lock := IF lock = self THEN None ELSE lock; goto Done
              } else {
                 cache := RemoveAt(cache, itpos); itpos := itpos - 1;
              }
           };
   ins:    cache := IF Has(cache, key) THEN cache ELSE Append(cache, key);   \* c[t] = v
           result[self] := "miss";
   rel:    if (Locked) { lock := None };
  }
} *)
\* BEGIN TRANSLATION
VARIABLES pc, cache, lock, result, key, itsize, itpos

vars == << pc, cache, lock, result, key, itsize, itpos >>

ProcSet == (Threads)

Init == (* Global variables *)
        /\ cache = Prefill
        /\ lock = None
        /\ result = [t \in Threads |-> "pending"]
        (* Process T *)
        /\ key \in [Threads -> (100 + 1)..(100 + 2)]
        /\ itsize = [self \in Threads |-> 0]
        /\ itpos = [self \in Threads |-> 0]
        /\ pc = [self \in ProcSet |-> "get"]

get(self) == /\ pc[self] = "get"
             /\ IF Has(cache, key[self])
                   THEN /\ result' = [result EXCEPT ![self] = "hit"]
                        /\ pc' = [pc EXCEPT ![self] = "Done"]
                   ELSE /\ pc' = [pc EXCEPT ![self] = "acq"]
                        /\ UNCHANGED result
             /\ UNCHANGED << cache, lock, key, itsize, itpos >>

acq(self) == /\ pc[self] = "acq"
             /\ IF Locked
                   THEN /\ lock = None
                        /\ lock' = self
                   ELSE /\ TRUE
                        /\ lock' = lock
             /\ pc' = [pc EXCEPT ![self] = "mkit"]
             /\ UNCHANGED << cache, result, key, itsize, itpos >>

mkit(self) == /\ pc[self] = "mkit"
              /\ itsize' = [itsize EXCEPT ![self] = Len(cache)]
              /\ itpos' = [itpos EXCEPT ![self] = Len(cache)]
              /\ pc' = [pc EXCEPT ![self] = "loop"]
              /\ UNCHANGED << cache, lock, result, key >>

loop(self) == /\ pc[self] = "loop"
              /\ IF Len(cache) >= MaxLen
                    THEN /\ pc' = [pc EXCEPT ![self] = "pop"]
                    ELSE /\ pc' = [pc EXCEPT ![self] = "ins"]
              /\ UNCHANGED << cache, lock, result, key, itsize, itpos >>

pop(self) == /\ pc[self] = "pop"
             /\ IF Len(cache) # itsize[self] \/ itpos[self] = 0
                   THEN /\ result' = [result EXCEPT ![self] = "RuntimeError"]
                        /\ lock' = (IF lock = self THEN None ELSE lock)
                        /\ pc' = [pc EXCEPT ![self] = "Done"]
                        /\ UNCHANGED << cache, itpos >>
                   ELSE /\ cache' = RemoveAt(cache, itpos[self])
                        /\ itpos' = [itpos EXCEPT ![self] = itpos[self] - 1]
                        /\ pc' = [pc EXCEPT ![self] = "loop"]
                        /\ UNCHANGED << lock, result >>
             /\ UNCHANGED << key, itsize >>

ins(self) == /\ pc[self] = "ins"
             /\ cache' = IF Has(cache, key[self]) THEN cache ELSE Append(cache, key[self])
             /\ result' = [result EXCEPT ![self] = "miss"]
             /\ pc' = [pc EXCEPT ![self] = "rel"]
             /\ UNCHANGED << lock, key, itsize, itpos >>

rel(self) == /\ pc[self] = "rel"
             /\ IF Locked
                   THEN /\ lock' = None
                   ELSE /\ TRUE
                        /\ lock' = lock
             /\ pc' = [pc EXCEPT ![self] = "Done"]
             /\ UNCHANGED << cache, result, key, itsize, itpos >>

T(self) == get(self) \/ acq(self) \/ mkit(self) \/ loop(self) \/ pop(self)
              \/ ins(self) \/ rel(self)

(* Allow infinite stuttering to prevent deadlock on termination. *)
Terminating == /\ \A self \in ProcSet: pc[self] = "Done"
               /\ UNCHANGED vars

Next == (\E self \in Threads: T(self))
           \/ Terminating

Spec == Init /\ [][Next]_vars

Termination == <>(\A self \in ProcSet: pc[self] = "Done")

\* END TRANSLATION

NoError == \A t \in Threads : result[t] # "RuntimeError"
Bounded == Len(cache) <= MaxLen + Cardinality(Threads)
=============================================================================
