--------------------------- MODULE Trace_HighJump ---------------------------
(* Validation of executions recorded from the real HighJumpCompetition.      *)
(* TRACE_FILE is ndjson, one behaviour per line: [steps |-> <<step, ...>>],  *)
(* step = [c, out, post, pr (probes), rep (from_actions), rt (round trip)].  *)
(* Every snapshot is complete, so each step is judged from the *observed*    *)
(* pre-state (the previous step's post-state): no hidden state, linear time. *)
(*   Monitor clauses  -> kind "viol"  (the properties C02 / C03 / C08)       *)
(*   Model step       -> kind "drift" (the mechanism model of HighJump.tla)  *)
EXTENDS HighJump, Json, IOUtils

VARIABLES tid, l

Trace == ndJsonDeserialize(IOEnv.TRACE_FILE)

Steps(t) == Trace[t].steps
Pre(t, i) == IF i = 1 THEN (IF "pre" \in DOMAIN Trace[t] THEN Trace[t].pre ELSE EmptyHJ) ELSE Steps(t)[i - 1].post

Report(kind, t, i, pi, clauses) ==
    PrintT("@@" \o ToJson([kind |-> kind, tid |-> t, l |-> i, probe |-> pi, clauses |-> clauses]))

OutM(out) == IF out \in {"ok", "rule", "key", "assert"} THEN out ELSE "other"

ProbeClauses(pre, ctx, p) ==
    LET post == IF p.same THEN pre ELSE IF p.out # "ok" THEN p.post ELSE pre IN
    StepClausesC(pre, ctx, p.c, OutM(p.out), post) \ (IF p.out = "ok" THEN {"card_shape", "state_vs_cards"} ELSE {})

MainClauses(pre, ctx, s) ==
    StepClausesC(pre, ctx, s.c, OutM(s.out), s.post)
    \cup (IF s.out = "ok" THEN StateClauses(s.post) ELSE {})
    \cup (IF "rep" \notin DOMAIN s \/ (s.rep.ok /\ Obs(s.rep.snap) = Obs(s.post)) THEN {} ELSE {"log_replay_differs"})
    \cup (IF "rep" \notin DOMAIN s \/ "v" \notin DOMAIN s \/ ~s.rep.ok \/ s.rep.v.trials = s.v.trials THEN {} ELSE {"log_replay_differs"})
    \cup (IF "rt" \notin DOMAIN s \/ (s.rt.ok /\ ObsRT(s.rt.snap) = ObsRT(s.post)) THEN {} ELSE {"card_round_trip_differs"})

DriftClauses(t, pre, s) ==
    LET r == Do(pre, s.c) IN
    (IF r[1] = OutM(s.out) THEN {} ELSE {"model_outcome"})
    \cup (IF r[2] = s.post THEN {} ELSE {"model_post_state"})
    \* (the whole-log replay is quadratic in the trace length: traces flagged `lite` - full-size fields recorded from the
    \*  repository's test-suite - check it at their last step only)
    \cup (IF ("lite" \in DOMAIN Trace[t] /\ Trace[t].lite /\ s # Steps(t)[Len(Steps(t))]) \/ FromActions(EmptyHJ, s.post.log) = s.post THEN {} ELSE {"model_log_replay"})
    \* the derived views of the real object are those of the model (trials, remaining, eliminated, is_finished, is_running)
    \cup (IF "v" \notin DOMAIN s \/ s.v = Views(s.post) THEN {} ELSE {"model_views"})
    \cup (IF TrialsSpellCards(s.post) THEN {} ELSE {"model_trials_vs_cards"})

CheckStep(t, i) ==
    LET s == Steps(t)[i]
        pre == Pre(t, i)
        ctx == RuleCtx(pre)
        mc == MainClauses(pre, ctx, s)
        dc == DriftClauses(t, pre, s)
        postctx == RuleCtx(s.post)
        kf == (IF KF_BeatenReinstated(s.post) \/ (i = 1 /\ KF_BeatenReinstated(pre)) THEN {"KF-HJ1"} ELSE {})
              \cup (IF KF_JumpOffPass(s.post) THEN {"KF-HJ2"} ELSE {})
    IN /\ mc = {} \/ Report("viol", t, i, 0, mc)
       /\ kf = {} \/ Report("kf", t, i, 0, kf)
       /\ dc = {} \/ Report("drift", t, i, 0, dc)
       /\ \A k \in DOMAIN s.pr :
            LET pc == ProbeClauses(s.post, postctx, s.pr[k]) IN pc = {} \/ Report("viol", t, i, k, pc)
       /\ \A k \in DOMAIN s.pr :
            LET r == Do(s.post, s.pr[k].c)
                okm == r[1] = OutM(s.pr[k].out) /\ (s.pr[k].same = (r[2] = s.post))
            IN okm \/ Report("drift", t, i, k, {"model_probe"})

Init == tid \in DOMAIN Trace /\ l = 0
Next == l < Len(Steps(tid)) /\ l' = l + 1 /\ UNCHANGED tid
Spec == Init /\ [][Next]_<<tid, l>>

Checked == l = 0 \/ CheckStep(tid, l)
=============================================================================
