SPECIFICATION Spec
INVARIANT CacheBounded
CHECK_DEADLOCK FALSE
