SPECIFICATION Spec
CONSTANTS
  NBibs = 3
  BarValues = {100, 105, 110, 115, 120}
  MaxH = 7
  MaxDepth = 45
  OnlyOK = TRUE
CONSTRAINT Bound
INVARIANT NoBadStep
INVARIANT EmitLog
CHECK_DEADLOCK FALSE
