--------------------------- MODULE Trace_CodeText ---------------------------
(* C07: observations of check_event_code / normalize_event_code.               *)
(*  k = "code": s (code points), chk (observed acceptance), out = "ok" or the   *)
(*              exception class, n = normalised text, nn = normalize(n) ("" if  *)
(*              it raised, nok tells), chkn = observed acceptance of n          *)
(*  k = "group": members = normal forms (code point sequences) of the accepted  *)
(*              spellings of one code that differ only in case, spacing, unit   *)
(*              suffix or trailing zeros                                        *)
EXTENDS CodeText, Json, IOUtils
VARIABLES tid
Trace == ndJsonDeserialize(IOEnv.TRACE_FILE)
Report(kind, t, clauses) == PrintT("@@" \o ToJson([kind |-> kind, tid |-> t, clauses |-> clauses]))

CodeViol(r) ==
    IF IsCode(r.s) THEN
        (IF r.out = "ok" THEN {} ELSE {"accepted_code_not_normalised"})
        \cup (IF r.out # "ok" THEN {} ELSE
                (IF IsCode(r.n) /\ r.chkn THEN {} ELSE {"normal_form_not_accepted"})
                \cup (IF HasSpace(r.n) THEN {"normal_form_contains_whitespace"} ELSE {})
                \cup (IF r.nok /\ r.nn = r.n THEN {} ELSE {"normal_form_not_stable"})
                \* (R4) every family of the input must also accept the normal form; the normal form may
                \* belong to further families, because the patterns admit whitespace and lower case in
                \* some families only ('80 H' is a track code, '80H' also a hurdles code; 'mile' is a
                \* road code, 'MILE' also a track code)
                \cup (IF Families(r.s) \subseteq Families(r.n)
                      THEN {} ELSE {"normal_form_changes_family"}))
    ELSE IF ~IsCode(Strip(r.s)) THEN (IF r.out = "ValueError" THEN {} ELSE {"non_code_not_refused_with_ValueError"})
    ELSE {}
Viol(r) == CASE r.k = "code" -> CodeViol(r)
             [] r.k = "group" -> IF \A i \in DOMAIN r.members : r.members[i] = r.members[1] THEN {} ELSE {"spellings_normalise_differently"}
\* the translated automaton must agree with the real engine on every observed string
Drift(r) == IF r.k = "code" /\ IsCode(r.s) # r.chk THEN {"automaton_disagrees_with_re"} ELSE {}
Check(t) == LET r == Trace[t]
                v == Viol(r)
                d == Drift(r)
            IN /\ v = {} \/ Report("viol", t, v)
               /\ d = {} \/ Report("drift", t, d)
Init == tid \in DOMAIN Trace
Next == UNCHANGED tid
Spec == Init /\ [][Next]_tid
Checked == Check(tid)
=============================================================================
