-------------------------- MODULE Trace_EventCodes --------------------------
(* C04, observed side.  When a live pattern uses a construct whose language the   *)
(* translator can only over-approximate (atomic groups, possessive repeats of a   *)
(* longer body), the product automaton is no longer a decision for that pattern.  *)
(* The witnesses of every product state and transition are then matched by the    *)
(* real engine and the acceptance sets it reports are judged here by the very     *)
(* clause set of EventCodes.tla.  A record: s = the string (code points),         *)
(* acc = names of the patterns whose match() accepted it.                         *)
EXTENDS EventCodes, IOUtils
VARIABLES tid
Trace == ndJsonDeserialize(IOEnv.TRACE_FILE)
ToSet(q) == {q[i] : i \in DOMAIN q}
Check(t) == LET v == Clauses(ToSet(Trace[t].acc))
            IN v = {} \/ PrintT("@@" \o ToJson([kind |-> "viol", tid |-> t, clauses |-> v]))
TInit == Init /\ tid \in DOMAIN Trace            \* the automaton's own variables stay at their initial values
TNext == UNCHANGED <<tid, live, sticky, prevEnd, lastNL, w>>
TSpec == TInit /\ [][TNext]_<<tid, live, sticky, prevEnd, lastNL, w>>
Checked == Check(tid)
=============================================================================
