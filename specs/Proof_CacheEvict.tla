--------------------------- MODULE Proof_CacheEvict ---------------------------
(***************************************************************************)
(* C16, bounded validation cache (utils._add_to_cache), for ANY number of  *)
(* threads, ANY cache limit >= 1 and ANY initial contents within the       *)
(* limit: a machine-checked (TLAPS) proof that the model of the code as it *)
(* is now (eviction and insertion under the cache lock: Locked = TRUE)     *)
(* never raises - the reversed-dict iterator is used for at most one pop   *)
(* per call, because the cache never exceeds its limit - and stays within  *)
(* the limit.  TLC checks 3 threads x limit 2 and refutes the unlocked     *)
(* variant; the scheduler binds the model to the real function.            *)
(***************************************************************************)
EXTENDS CacheEvict, TLAPS, SequenceTheorems

ASSUME Assump == /\ MaxLen \in Nat /\ MaxLen >= 1 /\ Locked = TRUE
                 /\ None \notin Threads
                 /\ Prefill \in Seq(Nat) /\ Len(Prefill) <= MaxLen

Labels == {"get", "acq", "mkit", "loop", "pop", "ins", "rel", "Done"}
Results == {"pending", "hit", "miss", "RuntimeError"}
InCS(t) == pc[t] \in {"mkit", "loop", "pop", "ins", "rel"}

TypeOK == /\ cache \in Seq(Nat)
          /\ lock \in Threads \cup {None}
          /\ result \in [Threads -> Results]
          /\ key \in [Threads -> Nat]
          /\ itsize \in [Threads -> Nat]
          /\ itpos \in [Threads -> Nat]
          /\ pc \in [Threads -> Labels]

IndInv == /\ TypeOK
          /\ \A t \in Threads : InCS(t) <=> lock = t                 \* the lock is held exactly between acq and rel
          /\ Len(cache) <= MaxLen                                     \* the cache never exceeds its limit
          /\ \A t \in Threads : pc[t] = "loop" =>                      \* a fresh iterator, or one pop has made room
                 \/ (itsize[t] = Len(cache) /\ itpos[t] = Len(cache))
                 \/ Len(cache) < MaxLen
          /\ \A t \in Threads : pc[t] = "pop" => itsize[t] = Len(cache) /\ itpos[t] = Len(cache) /\ Len(cache) >= MaxLen
          /\ \A t \in Threads : pc[t] = "ins" => Len(cache) < MaxLen
          /\ \A t \in Threads : result[t] # "RuntimeError"

LEMMA RemoveAtLen ==
  ASSUME NEW c \in Seq(Nat), NEW i \in 1..Len(c)
  PROVE  RemoveAt(c, i) \in Seq(Nat) /\ Len(RemoveAt(c, i)) = Len(c) - 1
<1>1. Len(c) \in Nat /\ i \in Int /\ i - 1 \in Int /\ i + 1 \in Int
  OBVIOUS
<1>2. \A j \in 1 .. (i - 1) : c[j] \in Nat
  OBVIOUS
<1>3. \A j \in (i + 1) .. Len(c) : c[j] \in Nat
  OBVIOUS
<1>4. SubSeq(c, 1, i - 1) \in Seq(Nat) /\ Len(SubSeq(c, 1, i - 1)) = i - 1
  BY <1>1, <1>2, SubSeqProperties
<1>5. SubSeq(c, i + 1, Len(c)) \in Seq(Nat) /\ Len(SubSeq(c, i + 1, Len(c))) = Len(c) - i
  BY <1>1, <1>3, SubSeqProperties
<1> QED BY <1>1, <1>4, <1>5, ConcatProperties DEF RemoveAt

LEMMA InitInv == Init => IndInv
  BY Assump DEF Init, IndInv, TypeOK, InCS, Labels, Results, ProcSet, None

LEMMA StepInv == IndInv /\ [Next]_vars => IndInv'
<1> SUFFICES ASSUME IndInv, [Next]_vars PROVE IndInv'
  OBVIOUS
<1> USE Assump DEF IndInv, TypeOK, InCS, Labels, Results, ProcSet, None
<1>0. Len(cache) \in Nat
  OBVIOUS
<1>1. ASSUME NEW self \in Threads, get(self) PROVE IndInv'
  <2>1. pc[self] = "get" /\ UNCHANGED << cache, lock, key, itsize, itpos >>
    BY <1>1 DEF get
  <2>2. CASE Has(cache, key[self])
    <3>1. result' = [result EXCEPT ![self] = "hit"] /\ pc' = [pc EXCEPT ![self] = "Done"]
      BY <1>1, <2>2 DEF get
    <3> QED BY <2>1, <3>1
  <2>3. CASE ~Has(cache, key[self])
    <3>1. result' = result /\ pc' = [pc EXCEPT ![self] = "acq"]
      BY <1>1, <2>3 DEF get
    <3> QED BY <2>1, <3>1
  <2> QED BY <2>2, <2>3
<1>2. ASSUME NEW self \in Threads, acq(self) PROVE IndInv'
  <2>1. pc[self] = "acq" /\ lock = None /\ lock' = self /\ pc' = [pc EXCEPT ![self] = "mkit"]
        /\ UNCHANGED << cache, result, key, itsize, itpos >>
    BY <1>2 DEF acq
  <2>2. \A t \in Threads : ~InCS(t)
    BY <2>1
  <2> QED BY <2>1, <2>2
<1>3. ASSUME NEW self \in Threads, mkit(self) PROVE IndInv'
  <2>1. pc[self] = "mkit" /\ lock = self
        /\ itsize' = [itsize EXCEPT ![self] = Len(cache)] /\ itpos' = [itpos EXCEPT ![self] = Len(cache)]
        /\ pc' = [pc EXCEPT ![self] = "loop"] /\ UNCHANGED << cache, lock, result, key >>
    BY <1>3 DEF mkit
  <2>2. \A t \in Threads : t # self => ~InCS(t)
    BY <2>1
  <2> QED BY <2>1, <2>2, <1>0
<1>4. ASSUME NEW self \in Threads, loop(self) PROVE IndInv'
  <2>1. pc[self] = "loop" /\ lock = self /\ UNCHANGED << cache, lock, result, key, itsize, itpos >>
    BY <1>4 DEF loop
  <2>2. \A t \in Threads : t # self => ~InCS(t)
    BY <2>1
  <2>3. CASE Len(cache) >= MaxLen
    <3>1. pc' = [pc EXCEPT ![self] = "pop"]
      BY <1>4, <2>3 DEF loop
    <3>2. itsize[self] = Len(cache) /\ itpos[self] = Len(cache)
      BY <2>1, <2>3, <1>0
    <3> QED BY <2>1, <2>2, <2>3, <3>1, <3>2
  <2>4. CASE ~(Len(cache) >= MaxLen)
    <3>1. pc' = [pc EXCEPT ![self] = "ins"]
      BY <1>4, <2>4 DEF loop
    <3> QED BY <2>1, <2>2, <2>4, <3>1, <1>0
  <2> QED BY <2>3, <2>4
<1>5. ASSUME NEW self \in Threads, pop(self) PROVE IndInv'
  <2>1. pc[self] = "pop" /\ lock = self /\ itsize[self] = Len(cache) /\ itpos[self] = Len(cache) /\ Len(cache) >= MaxLen
    BY <1>5 DEF pop
  <2>2. \A t \in Threads : t # self => ~InCS(t)
    BY <2>1
  <2>3. ~(Len(cache) # itsize[self] \/ itpos[self] = 0) /\ itpos[self] \in 1..Len(cache)
    BY <2>1, <1>0
  <2>4. cache' = RemoveAt(cache, itpos[self]) /\ itpos' = [itpos EXCEPT ![self] = itpos[self] - 1]
        /\ pc' = [pc EXCEPT ![self] = "loop"] /\ UNCHANGED << lock, result, key, itsize >>
    BY <1>5, <2>3 DEF pop
  <2>5. cache' \in Seq(Nat) /\ Len(cache') = Len(cache) - 1
    BY <2>3, <2>4, RemoveAtLen
  <2>6. Len(cache') < MaxLen /\ Len(cache') <= MaxLen
    BY <2>5, <1>0
  <2>7. itpos' \in [Threads -> Nat]
    BY <2>3, <2>4
  <2> QED BY <2>1, <2>2, <2>4, <2>5, <2>6, <2>7
<1>6. ASSUME NEW self \in Threads, ins(self) PROVE IndInv'
  <2>1. pc[self] = "ins" /\ lock = self /\ Len(cache) < MaxLen
        /\ cache' = (IF Has(cache, key[self]) THEN cache ELSE Append(cache, key[self]))
        /\ result' = [result EXCEPT ![self] = "miss"] /\ pc' = [pc EXCEPT ![self] = "rel"]
        /\ UNCHANGED << lock, key, itsize, itpos >>
    BY <1>6 DEF ins
  <2>2. \A t \in Threads : t # self => ~InCS(t)
    BY <2>1
  <2>3. cache' \in Seq(Nat) /\ Len(cache') <= MaxLen
    <3>1. CASE Has(cache, key[self])
      BY <2>1, <3>1, <1>0
    <3>2. CASE ~Has(cache, key[self])
      <4>1. key[self] \in Nat /\ cache' = Append(cache, key[self])
        BY <2>1, <3>2
      <4>2. Append(cache, key[self]) \in Seq(Nat) /\ Len(Append(cache, key[self])) = Len(cache) + 1
        BY <4>1, AppendProperties
      <4> QED BY <2>1, <4>1, <4>2, <1>0
    <3> QED BY <3>1, <3>2
  <2> QED BY <2>1, <2>2, <2>3
<1>7. ASSUME NEW self \in Threads, rel(self) PROVE IndInv'
  <2>1. pc[self] = "rel" /\ lock = self /\ lock' = None /\ pc' = [pc EXCEPT ![self] = "Done"]
        /\ UNCHANGED << cache, result, key, itsize, itpos >>
    BY <1>7 DEF rel
  <2>2. \A t \in Threads : t # self => ~InCS(t)
    BY <2>1
  <2> QED BY <2>1, <2>2
<1>8. CASE Terminating
  BY <1>8 DEF Terminating, vars
<1>9. CASE UNCHANGED vars
  BY <1>9 DEF vars
<1> QED BY <1>1, <1>2, <1>3, <1>4, <1>5, <1>6, <1>7, <1>8, <1>9 DEF Next, T

THEOREM Safe == Spec => [](NoError /\ Len(cache) <= MaxLen)
<1>1. IndInv => NoError /\ Len(cache) <= MaxLen
  BY DEF IndInv, TypeOK, NoError
<1> QED BY InitInv, StepInv, <1>1, PTL DEF Spec
=============================================================================
