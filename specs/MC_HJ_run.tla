----------------------------- MODULE MC_HJ_run -----------------------------
(* Root module of a model run; the harness overwrites StartLogsDef.          *)
EXTENDS MC_HighJump
StartLogsDef == {<<>>}
=============================================================================
