SPECIFICATION Spec
CONSTANTS
  KeySet = {"v1", "v2", "i1", "i2", "b1"}
  MaxLen = 2
  MaxHist = 3
  AsWas = TRUE
INVARIANT HistoryIndependent
INVARIANT CacheBounded
INVARIANT NoDuplicateKeys
INVARIANT CachedTruth
CHECK_DEADLOCK FALSE
