--------------------------- MODULE Apa_SchemaCache ---------------------------
(***************************************************************************)
(* C19 for histories of ANY length: an inductive invariant of the cache    *)
(* model, discharged symbolically by Apalache                              *)
(*     Init => IndInv                    (--init=Init    --length=0)       *)
(*     IndInv /\ Next => IndInv'         (--init=IndInit --length=1)       *)
(* over the same operator SchemaCache!Validate that Trace_SchemaCache      *)
(* binds to the real code, at the real cache limit (20) with more keys     *)
(* (24) than the cache can hold, so eviction is part of the step.          *)
(* One cache: the two caches of athlib.utils never touch each other and    *)
(* have the same code shape.  No history variable: the invariant holds in  *)
(* every reachable cache state, hence after every history.                 *)
(* Guards run by the harness: IndInit is not vacuous (FullWithFailure is   *)
(* reachable from it), and the pre-fix step NextAsWas is NOT inductive.    *)
(***************************************************************************)
EXTENDS SchemaCache, Apalache

KeySet == {"v1", "v2", "v3", "v4", "v5", "v6", "v7", "v8", "v9", "v10", "v11", "v12", "i1", "i2", "i3", "i4", "i5", "i6", "i7", "i8", "i9", "i10", "i11", "i12"}
ValidKeys == {"v1", "v2", "v3", "v4", "v5", "v6", "v7", "v8", "v9", "v10", "v11", "v12"}
MaxLen == 20

VARIABLES
  \* @type: Seq(<<Str, Bool>>);
  c,
  \* @type: { k: Str, ef: Bool, out: Str };
  last

FreshOf(k) == IF k \in ValidKeys THEN "valid" ELSE "invalid"

Init == c = <<>> /\ last = [k |-> "v1", ef |-> FALSE, out |-> "True"]
Next == \E k \in KeySet, ef \in BOOLEAN :
          LET r == Validate(c, k, ef, FreshOf(k), MaxLen) IN
          /\ c' = r[2]
          /\ last' = [k |-> k, ef |-> ef, out |-> r[1]]
NextAsWas == \E k \in KeySet, ef \in BOOLEAN :
          LET r == ValidateAsWas(c, k, ef, FreshOf(k), MaxLen) IN
          /\ c' = r[2]
          /\ last' = [k |-> k, ef |-> ef, out |-> r[1]]

TypeOK == /\ \A i \in DOMAIN c : c[i][1] \in KeySet
          /\ last.k \in KeySet
\* the property: the answer is the answer of a fresh process (never "RuntimeError" either)
HistoryIndependent == last.out = FreshOutcome(FreshOf(last.k), last.ef)
CacheBounded == Len(c) <= MaxLen
NoDuplicateKeys == \A i, j \in DOMAIN c : c[i][1] = c[j][1] => i = j
CachedTruth == \A i \in DOMAIN c : c[i][2] = (FreshOf(c[i][1]) = "valid")

IndInv == TypeOK /\ HistoryIndependent /\ CacheBounded /\ NoDuplicateKeys /\ CachedTruth
\* any state satisfying the invariant, reachable or not
IndInit == /\ c = Gen(MaxLen + 1)
           /\ last = Gen(1)
           /\ IndInv
\* non-vacuity guard: "violated" from IndInit means IndInit contains a full cache holding a cached failure
NotFullWithFailure == ~(Len(c) = MaxLen /\ \E i \in DOMAIN c : ~c[i][2])
=============================================================================
