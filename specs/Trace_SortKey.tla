---------------------------- MODULE Trace_SortKey ----------------------------
(* C10: observations of discipline_sort_key, text_discipline_sort_key,           *)
(* sort_by_discipline, get_distance, get_duration_event_time, unit_name and      *)
(* AgeGrader.event_code_to_kind on the event-code language.                      *)
EXTENDS SortKey, Json, IOUtils
VARIABLES tid
Trace == ndJsonDeserialize(IOEnv.TRACE_FILE)
Report(kind, t, clauses) == PrintT("@@" \o ToJson([kind |-> kind, tid |-> t, clauses |-> clauses]))

CodeViol(r) ==
    IF ~IsCode(r.s) THEN {}
    ELSE LET F == Families(r.s)
             sd == StatedDistance(r.s) IN
        (IF r.key.ok THEN {} ELSE {"sort_key_raised"})
        \cup (IF r.tkey.ok THEN {} ELSE {"text_sort_key_raised"})
        \cup (IF r.dist.ok THEN {} ELSE {"get_distance_raised"})
        \cup (IF r.dur.ok THEN {} ELSE {"get_duration_event_time_raised"})
        \cup (IF r.unit.ok THEN {} ELSE {"unit_name_raised"})
        \cup (IF r.kind.ok THEN {} ELSE {"event_code_to_kind_raised"})
        \cup (IF ~r.key.ok \/ r.key.cat \in Categories(r.s) THEN {} ELSE {"sort_category_wrong"})
        \cup (IF ~r.key.ok \/ ~AsciiOnly(r.s) \/ r.key.cat \notin {1, 2} \/ F \cap {"PAT_TRACK", "PAT_HURDLES"} = {} \/ sd < 0
                 \/ r.key.num = sd THEN {} ELSE {"sort_distance_differs_from_code"})
        \* relays are ordered by (leg) distance
        \cup (IF ~r.key.ok \/ ~AsciiOnly(r.s) \/ "PAT_RELAYS" \notin F \/ r.key.cat # 5 THEN {} ELSE
                LET p == RelayParts(r.s) IN
                IF p.leg < 0 \/ r.key.num \in (p.leg - p.tol)..p.leg THEN {} ELSE {"sort_distance_differs_from_code"})
        \cup (IF ~r.dist.ok \/ ~AsciiOnly(r.s) \/ "PAT_RELAYS" \notin F THEN {} ELSE
                LET p == RelayParts(r.s) IN
                IF p.leg < 0 \/ r.dist.v \in (p.legs * (p.leg - p.tol))..(p.legs * p.leg) THEN {} ELSE {"relay_distance_not_legs_times_leg"})
        \cup (IF ~r.unit.ok \/ ~r.kind.ok THEN {} ELSE
                \* (only the four kinds the graders know are tied to a unit; a kind for relays, multi-events or fixed-duration
                \* races - benign F10 - may carry whatever unit suits it: the property asks for a value, not for which)
                IF (r.kind.v \in {"throw", "jump"} /\ r.unit.v # "metres") \/ (r.kind.v \in {"track", "road"} /\ r.unit.v = "metres")
                THEN {"unit_and_kind_disagree"} ELSE {})
PairViol(r) ==     \* adjacent entries of the tuple-sorted list, distances below 100 km
    (IF KeyLess(r.a.key, r.b.key) \/ KeyEq(r.a.key, r.b.key) THEN {} ELSE {"list_not_sorted_by_tuple_key"})
    \cup (IF KeyLess(r.a.key, r.b.key) = LexLess(r.a.tkey, r.b.tkey) /\ KeyEq(r.a.key, r.b.key) = (r.a.tkey = r.b.tkey)
          THEN {} ELSE {"text_key_orders_differently"})
FieldViol(r) == IF \A i \in 1..(Len(r.keys) - 1) : r.keys[i].cat < r.keys[i + 1].cat \/
                      (r.keys[i].cat = r.keys[i + 1].cat /\ r.keys[i].num < r.keys[i + 1].num)
                THEN {} ELSE {"field_events_not_in_conventional_order"}
Count(seq, k) == Cardinality({i \in DOMAIN seq : KeyEq(seq[i], k)})
SortViol(r) ==
    (IF \A i \in 1..(Len(r.out) - 1) : KeyLess(r.out[i], r.out[i + 1]) \/ KeyEq(r.out[i], r.out[i + 1]) THEN {} ELSE {"sorter_output_not_sorted"})
    \cup (IF r.ok /\ Len(r.out) = Len(r.inp) /\ \A i \in DOMAIN r.inp : Count(r.out, r.inp[i]) = Count(r.inp, r.inp[i]) THEN {} ELSE {"sorter_output_not_a_permutation"})
Viol(r) == CASE r.k = "code" -> CodeViol(r) [] r.k = "pair" -> PairViol(r) [] r.k = "field" -> FieldViol(r) [] r.k = "sort" -> SortViol(r)
Drift(r) == IF r.k = "code" /\ IsCode(r.s) # r.chk THEN {"automaton_disagrees_with_re"} ELSE {}
Check(t) == LET r == Trace[t]
                v == Viol(r)
                d == Drift(r)
            IN /\ v = {} \/ Report("viol", t, v)
               /\ d = {} \/ Report("drift", t, d)
Init == tid \in DOMAIN Trace
Next == UNCHANGED tid
Spec == Init /\ [][Next]_tid
Checked == Check(tid)
=============================================================================
