SPECIFICATION Spec
INVARIANT Checked
INVARIANT Theorems
CHECK_DEADLOCK FALSE
