------------------------- MODULE Proof_SchemaCache -------------------------
(***************************************************************************)
(* C19 for every cache limit, every key set, every ground truth and every  *)
(* history length: a machine-checked (TLAPS) proof that the operator       *)
(* SchemaCache!Validate - the one the trace specification binds to the     *)
(* real code - answers like a fresh process from every cache that          *)
(* satisfies IsCache, and leaves a cache that satisfies IsCache again.     *)
(* The empty cache satisfies it, hence by induction every history does.    *)
(***************************************************************************)
EXTENDS SchemaCache, TLAPS, SequenceTheorems

CONSTANTS Keys, Truth, MaxLen
ASSUME Assump == /\ MaxLen \in Nat /\ MaxLen >= 1
                 /\ Truth \in [Keys -> {"valid", "invalid", "broken"}]

Entries == Keys \X BOOLEAN
\* a cache holds true verdicts only, never a key whose schema file is broken, and respects the limit
IsCache(c) == /\ c \in Seq(Entries)
              /\ \A i \in 1..Len(c) : c[i][2] = (Truth[c[i][1]] = "valid") /\ Truth[c[i][1]] # "broken"
              /\ Len(c) <= MaxLen

LEMMA EmptyIsCache == IsCache(<<>>)
BY Assump DEF IsCache

LEMMA LookupTruth ==
    ASSUME NEW c, IsCache(c), NEW k \in Keys, HasKey(c, k)
    PROVE  Lookup(c, k) = (Truth[k] = "valid") /\ Truth[k] # "broken"
<1> DEFINE j == CHOOSE i \in DOMAIN c : c[i][1] = k
<1>1. \E i \in DOMAIN c : c[i][1] = k
  BY DEF HasKey
<1>2. j \in DOMAIN c /\ c[j][1] = k
  BY <1>1
<1>3. DOMAIN c = 1..Len(c)
  BY DEF IsCache
<1>4. c[j][2] = (Truth[c[j][1]] = "valid") /\ Truth[c[j][1]] # "broken"
  BY <1>2, <1>3 DEF IsCache
<1> QED BY <1>2, <1>4 DEF Lookup

LEMMA AddKeeps ==
    ASSUME NEW c, IsCache(c), NEW k \in Keys, NEW v \in BOOLEAN,
           v = (Truth[k] = "valid"), Truth[k] # "broken"
    PROVE  AddToCache(c, k, v, MaxLen)[1] = "ok" /\ IsCache(AddToCache(c, k, v, MaxLen)[2])
<1>0. c \in Seq(Entries) /\ Len(c) \in Nat /\ Len(c) <= MaxLen /\ <<k, v>> \in Entries
  BY LenProperties DEF IsCache, Entries
<1>1. CASE Len(c) < MaxLen
  <2> DEFINE d == Append(c, <<k, v>>)
  <2>1. d \in Seq(Entries) /\ Len(d) = Len(c) + 1 /\ d[Len(c) + 1] = <<k, v>> /\ \A i \in 1..Len(c) : d[i] = c[i]
    BY <1>0, AppendProperties
  <2>2. \A i \in 1..Len(d) : d[i][2] = (Truth[d[i][1]] = "valid") /\ Truth[d[i][1]] # "broken"
    BY <2>1, <1>0 DEF IsCache
  <2>3. Len(d) <= MaxLen
    BY <2>1, <1>1, <1>0, Assump
  <2> QED BY <1>1, <2>1, <2>2, <2>3 DEF AddToCache, IsCache
<1>2. CASE ~(Len(c) < MaxLen)
  <2>0. Len(c) = MaxLen /\ Len(c) >= 1
    BY <1>2, <1>0, Assump
  <2> DEFINE c1 == SubSeq(c, 1, Len(c) - 1)
  <2>1. c1 \in Seq(Entries) /\ Len(c1) = Len(c) - 1 /\ \A i \in 1..(Len(c) - 1) : c1[i] = c[i]
    BY <1>0, <2>0, SubSeqProperties
  <2> DEFINE d == Append(c1, <<k, v>>)
  <2>2. d \in Seq(Entries) /\ Len(d) = Len(c1) + 1 /\ d[Len(c1) + 1] = <<k, v>> /\ \A i \in 1..Len(c1) : d[i] = c1[i]
    BY <2>1, <1>0, AppendProperties
  <2>3. \A i \in 1..Len(d) : d[i][2] = (Truth[d[i][1]] = "valid") /\ Truth[d[i][1]] # "broken"
    BY <2>1, <2>2, <2>0, <1>0 DEF IsCache
  <2>4. Len(c1) < MaxLen /\ Len(d) <= MaxLen
    BY <2>0, <2>1, <2>2, <1>0, Assump
  <2> QED BY <1>2, <2>1, <2>2, <2>3, <2>4 DEF AddToCache, IsCache
<1> QED BY <1>1, <1>2

THEOREM ValidateLikeFresh ==
    ASSUME NEW c, IsCache(c), NEW k \in Keys, NEW ef \in BOOLEAN
    PROVE  /\ Validate(c, k, ef, Truth[k], MaxLen)[1] = FreshOutcome(Truth[k], ef)
           /\ IsCache(Validate(c, k, ef, Truth[k], MaxLen)[2])
<1>t. Truth[k] \in {"valid", "invalid", "broken"}
  BY Assump
<1>1. CASE HasKey(c, k) /\ (Lookup(c, k) \/ ~ef)
  <2>1. Lookup(c, k) = (Truth[k] = "valid") /\ Truth[k] # "broken"
    BY <1>1, LookupTruth
  <2> QED BY <1>1, <2>1, <1>t DEF Validate, FreshOutcome
<1>2. CASE ~(HasKey(c, k) /\ (Lookup(c, k) \/ ~ef)) /\ Truth[k] = "broken"
  BY <1>2 DEF Validate, FreshOutcome
<1>3. CASE ~(HasKey(c, k) /\ (Lookup(c, k) \/ ~ef)) /\ Truth[k] = "valid"
  <2>1. AddToCache(c, k, TRUE, MaxLen)[1] = "ok" /\ IsCache(AddToCache(c, k, TRUE, MaxLen)[2])
    BY <1>3, AddKeeps
  <2> QED BY <1>3, <2>1 DEF Validate, FreshOutcome
<1>4. CASE ~(HasKey(c, k) /\ (Lookup(c, k) \/ ~ef)) /\ Truth[k] = "invalid" /\ ~ef
  <2>1. AddToCache(c, k, FALSE, MaxLen)[1] = "ok" /\ IsCache(AddToCache(c, k, FALSE, MaxLen)[2])
    BY <1>4, AddKeeps
  <2> QED BY <1>4, <2>1 DEF Validate, FreshOutcome
<1>5. CASE ~(HasKey(c, k) /\ (Lookup(c, k) \/ ~ef)) /\ Truth[k] = "invalid" /\ ef
  BY <1>5 DEF Validate, FreshOutcome
<1> QED BY <1>t, <1>1, <1>2, <1>3, <1>4, <1>5
=============================================================================
