SPECIFICATION Spec
CONSTANTS
 Threads = {1, 2}
 MaxLen = 2
 Locked = FALSE
 Prefill <- PrefillDef
INVARIANT NoError
