SPECIFICATION Spec
INVARIANT TyrvingMonotone
INVARIANT QkidsMonotone
INVARIANT SportshallOrderedAndReachable
INVARIANT BulgarianOrderedAndReachable
CHECK_DEADLOCK FALSE
