SPECIFICATION Spec
CONSTANTS
 Threads = {1, 2}
 NRows = 3
 PublishFirst = TRUE
INVARIANT Linearizable
