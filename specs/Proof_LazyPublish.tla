-------------------------- MODULE Proof_LazyPublish --------------------------
(***************************************************************************)
(* C16, lazily built tables, for ANY number of threads and ANY table size: *)
(* a machine-checked (TLAPS) proof that the PlusCal model of the code as   *)
(* it is now (build privately, publish in one step: PublishFirst = FALSE)  *)
(* satisfies AtomicTable and Linearizable in every reachable state of      *)
(* every interleaving.  TLC checks the same model for 3 threads and 3 rows *)
(* (and refutes the publish-first variant); Trace_LazyPublish binds the    *)
(* model to executions of the real code.                                   *)
(***************************************************************************)
EXTENDS LazyPublish, TLAPS

ASSUME Assump == NRows \in Nat /\ NRows >= 1 /\ PublishFirst = FALSE

Labels == {"test", "pubE", "fill", "build", "publish", "look", "Done"}

TypeOK == /\ pub \in BOOLEAN
          /\ rows \subseteq 1..NRows
          /\ result \in [Threads -> {"pending", "found", "missing"}]
          /\ mine \in [Threads -> SUBSET (1..NRows)]
          /\ i \in [Threads -> 1..(NRows + 1)]
          /\ want \in [Threads -> 1..NRows]
          /\ pc \in [Threads -> Labels]

IndInv == /\ TypeOK
          /\ AtomicTable
          /\ \A t \in Threads : mine[t] = 1..(i[t] - 1)                      \* the private table is the built prefix
          /\ \A t \in Threads : pc[t] = "publish" => i[t] = NRows + 1        \* ... complete when it is published
          /\ \A t \in Threads : pc[t] \in {"look", "Done"} => pub             \* a lookup only happens on a published table
          /\ \A t \in Threads : pc[t] \notin {"pubE", "fill"}                 \* (the publish-first labels are dead code)
          /\ \A t \in Threads : result[t] = IF pc[t] = "Done" THEN "found" ELSE "pending"

LEMMA InitInv == Init => IndInv
  BY Assump DEF Init, IndInv, TypeOK, AtomicTable, Labels, ProcSet

LEMMA StepInv == IndInv /\ [Next]_vars => IndInv'
<1> SUFFICES ASSUME IndInv, [Next]_vars PROVE IndInv'
  OBVIOUS
<1> USE Assump DEF IndInv, TypeOK, AtomicTable, Labels, ProcSet
<1>1. ASSUME NEW self \in Threads, test(self) PROVE IndInv'
  BY <1>1 DEF test
<1>2. ASSUME NEW self \in Threads, pubE(self) PROVE IndInv'
  BY <1>2 DEF pubE
<1>3. ASSUME NEW self \in Threads, fill(self) PROVE IndInv'
  BY <1>3 DEF fill
<1>4. ASSUME NEW self \in Threads, build(self) PROVE IndInv'
  <2>0. pc[self] = "build"
    BY <1>4 DEF build
  <2>1. CASE i[self] <= NRows
    <3>1. mine' = [mine EXCEPT ![self] = mine[self] \cup {i[self]}] /\ i' = [i EXCEPT ![self] = i[self] + 1]
          /\ pc' = [pc EXCEPT ![self] = "build"] /\ UNCHANGED << pub, rows, result, want >>
      BY <1>4, <2>1 DEF build
    <3>2. i[self] \in 1..NRows /\ mine[self] = 1..(i[self] - 1)
      BY <2>1
    <3>3. TypeOK'
      BY <3>1, <3>2
    <3>4. AtomicTable'
      BY <3>1
    <3>5. \A t \in Threads : mine'[t] = 1..(i'[t] - 1)
      <4> TAKE t \in Threads
      <4>1. CASE t = self
        BY <4>1, <3>1, <3>2
      <4>2. CASE t # self
        BY <4>2, <3>1
      <4> QED BY <4>1, <4>2
    <3>6. \A t \in Threads : pc'[t] = "publish" => i'[t] = NRows + 1
      BY <3>1, <2>0
    <3>7. \A t \in Threads : pc'[t] \in {"look", "Done"} => pub'
      BY <3>1, <2>0
    <3>8. \A t \in Threads : pc'[t] \notin {"pubE", "fill"}
      BY <3>1
    <3>9. \A t \in Threads : result'[t] = IF pc'[t] = "Done" THEN "found" ELSE "pending"
      BY <3>1, <2>0
    <3> QED BY <3>3, <3>4, <3>5, <3>6, <3>7, <3>8, <3>9
  <2>2. CASE ~(i[self] <= NRows)
    <3>1. pc' = [pc EXCEPT ![self] = "publish"] /\ UNCHANGED << mine, i, pub, rows, result, want >>
      BY <1>4, <2>2 DEF build
    <3>2. i[self] = NRows + 1
      BY <2>2
    <3>3. TypeOK'
      BY <3>1
    <3>4. AtomicTable'
      BY <3>1
    <3>5. \A t \in Threads : mine'[t] = 1..(i'[t] - 1)
      BY <3>1
    <3>6. \A t \in Threads : pc'[t] = "publish" => i'[t] = NRows + 1
      BY <3>1, <3>2
    <3>7. \A t \in Threads : pc'[t] \in {"look", "Done"} => pub'
      BY <3>1, <2>0
    <3>8. \A t \in Threads : pc'[t] \notin {"pubE", "fill"}
      BY <3>1
    <3>9. \A t \in Threads : result'[t] = IF pc'[t] = "Done" THEN "found" ELSE "pending"
      BY <3>1, <2>0
    <3> QED BY <3>3, <3>4, <3>5, <3>6, <3>7, <3>8, <3>9
  <2> QED BY <2>1, <2>2
<1>5. ASSUME NEW self \in Threads, publish(self) PROVE IndInv'
  <2>1. rows' = mine[self] /\ pub' = TRUE /\ pc' = [pc EXCEPT ![self] = "look"] /\ UNCHANGED << result, mine, i, want >>
    BY <1>5 DEF publish
  <2>2. pc[self] = "publish" /\ i[self] = NRows + 1 /\ mine[self] = 1..NRows
    BY <1>5 DEF publish
  <2> QED BY <2>1, <2>2
<1>6. ASSUME NEW self \in Threads, look(self) PROVE IndInv'
  <2>1. pc[self] = "look" /\ pub /\ rows = 1..NRows /\ want[self] \in rows
    BY <1>6 DEF look
  <2>2. result' = [result EXCEPT ![self] = "found"] /\ pc' = [pc EXCEPT ![self] = "Done"] /\ UNCHANGED << pub, rows, mine, i, want >>
    BY <1>6, <2>1 DEF look
  <2> QED BY <2>1, <2>2
<1>7. CASE Terminating
  BY <1>7 DEF Terminating, vars
<1>8. CASE UNCHANGED vars
  BY <1>8 DEF vars
<1> QED BY <1>1, <1>2, <1>3, <1>4, <1>5, <1>6, <1>7, <1>8 DEF Next, T

THEOREM Safe == Spec => [](AtomicTable /\ Linearizable)
<1>1. IndInv => AtomicTable /\ Linearizable
  BY DEF IndInv, TypeOK, Linearizable
<1> QED BY InitInv, StepInv, <1>1, PTL DEF Spec
=============================================================================
