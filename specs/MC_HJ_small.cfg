SPECIFICATION Spec
CONSTANTS
  NBibs = 2
  BarValues = {0, 100, 105, 110}
  MaxH = 3
  MaxDepth = 0
  OnlyOK = FALSE
CONSTRAINT Bound
VIEW View
INVARIANT NoBadStep
CHECK_DEADLOCK FALSE
