SPECIFICATION Spec
CONSTANTS
 Alpha = {0, 4, 9}
 MaxFrac = 5
INVARIANT FormatMechOK
CHECK_DEADLOCK FALSE
