--------------------------- MODULE Trace_AgeGroups ---------------------------
(* C13: observations of the real calc_uka_age_group.  One record per            *)
(* (category, competition date): runs = <<from, to, l1..l5>> over contiguous    *)
(* birth-date ordinals, the five labels being                                   *)
(*   l1 date object, vets, no underage (the defaults)   l2 vets = FALSE         *)
(*   l3 underage = TRUE     l4 vets = FALSE, underage = TRUE                    *)
(*   l5 ISO date string, default options                                        *)
(* cols = number of label columns actually recorded (1 for the full grid).      *)
EXTENDS AgeGroups, Json, IOUtils
VARIABLES tid
Trace == ndJsonDeserialize(IOEnv.TRACE_FILE)
Report(kind, t, clauses, at) == PrintT("@@" \o ToJson([kind |-> kind, tid |-> t, clauses |-> clauses, at |-> at]))

Opt(col) == CASE col = 1 -> <<TRUE, FALSE>> [] col = 2 -> <<FALSE, FALSE>> [] col = 3 -> <<TRUE, TRUE>>
              [] col = 4 -> <<FALSE, TRUE>> [] col = 5 -> <<TRUE, FALSE>>

RunFail(rec, run) ==
    LET c == Civil(rec.m)
        L(col) == run[2 + col]
    IN (IF \A col \in 1..rec.cols : IsLabel(L(col)) THEN {} ELSE {"not_defined"})
       \cup (IF ~Asserted(rec.cat, c) \/ \A b \in run[1]..run[2] : \A col \in 1..rec.cols :
                    Ref(rec.cat, Civil(b), c, Opt(col)[1], Opt(col)[2]) = L(col)
             THEN {} ELSE {"differs_from_rule_text"})
       \cup (IF rec.cols < 5 \/ ~(\A col \in 1..5 : IsLabel(L(col))) THEN {} ELSE
              (IF L(5) = L(1) THEN {} ELSE {"string_birth_date_differs"})
              \cup (IF L(2) = (IF IsMasters(L(1)) THEN "SEN" ELSE L(1)) /\ L(4) = (IF IsMasters(L(3)) THEN "SEN" ELSE L(3))
                    THEN {} ELSE {"vets_option_changes_non_masters"})
              \cup (IF (L(3) = L(1) \/ (L(3) = "U9" /\ L(1) = "U11")) THEN {} ELSE {"underage_option_changes_others"}))
\* never a younger group when the birth date moves earlier (runs are in ascending birth order)
MonoFail(rec) ==
    IF \A i \in 1..(Len(rec.runs) - 1) : \A col \in 1..rec.cols :
          (IsLabel(rec.runs[i][2 + col]) /\ IsLabel(rec.runs[i + 1][2 + col])) =>
              Rank(rec.runs[i][2 + col]) >= Rank(rec.runs[i + 1][2 + col])
    THEN {} ELSE {"younger_group_for_earlier_birth"}
Check(t) == LET rec == Trace[t]
                bad == {i \in DOMAIN rec.runs : RunFail(rec, rec.runs[i]) # {}}
                mono == MonoFail(rec)
            IN /\ bad = {} \/ LET i == CHOOSE i \in bad : \A j \in bad : i <= j IN
                              Report("viol", t, UNION {RunFail(rec, rec.runs[k]) : k \in bad}, rec.runs[i])
               /\ mono = {} \/ Report("viol", t, mono, <<>>)
Init == tid \in DOMAIN Trace
Next == UNCHANGED tid
Spec == Init /\ [][Next]_tid
Checked == Check(tid)
=============================================================================
