--------------------------- MODULE Trace_PerfCheck ---------------------------
(* C12: observations of check_performance_for_discipline with a custom error     *)
(* class.  out = "ok" (a string came back, tokenised in res), "err" (the         *)
(* supplied class was raised), "exc" (anything else); again = outcome of         *)
(* validating the returned value again: "same", "differs", "err", "exc".         *)
EXTENDS PerfCheck, Json, IOUtils
VARIABLES tid
Trace == ndJsonDeserialize(IOEnv.TRACE_FILE)
Report(kind, t, clauses) == PrintT("@@" \o ToJson([kind |-> kind, tid |-> t, clauses |-> clauses]))
Viol(r) ==
    IF ~(r.loose \/ IsCode(r.code)) THEN {}
    ELSE IF r.out = "exc" THEN {"raised_other_than_supplied_error"}
    ELSE IF r.out = "err" \/ r.empty THEN {}
    ELSE LET cls == ClassesOfEvent(r.code, r.loose) IN
         (IF "timed" \in cls THEN TimeShapeFail(r.res, r.prec) \cup SpeedFail(r.res, r.dist)
                                      \cup (IF r.loose THEN {} ELSE SpeedFailStated(r.res, r.code)) ELSE {})
         \cup (IF "field" \in cls THEN FieldFail(r.res, r.rec120c) ELSE {})
         \cup (IF "multi" \in cls THEN MultiFail(r.res) ELSE {})
         \cup (IF cls = {"other"} /\ ~r.numberlike THEN {"result_not_number_like"} ELSE {})
         \cup (IF r.again = "same" THEN {} ELSE {"returned_value_not_accepted_unchanged"})
Drift(r) == IF ~r.loose /\ IsCode(r.code) # r.chk THEN {"automaton_disagrees_with_re"} ELSE {}
Check(t) == LET r == Trace[t]
                v == Viol(r)
                d == Drift(r)
            IN /\ v = {} \/ Report("viol", t, v)
               /\ d = {} \/ Report("drift", t, d)
Init == tid \in DOMAIN Trace
Next == UNCHANGED tid
Spec == Init /\ [][Next]_tid
Checked == Check(tid)
=============================================================================
