------------------------------ MODULE Trace_Port ------------------------------
(* C18 - the JavaScript port against the Python reference: one record per case    *)
(* executed in both languages.  A result is [t, v]: t = "num" (v = bit-pattern     *)
(* limbs of the double; Python ints are converted), "str" (v = code points),       *)
(* "bool", "exc" (refused), "other".                                               *)
(* SameAnswer: both refuse, or both return the same number / string / boolean.     *)
EXTENDS Naturals, Sequences, TLC, Json, IOUtils
VARIABLES tid
Trace == ndJsonDeserialize(IOEnv.TRACE_FILE)
Report(kind, t, clauses) == PrintT("@@" \o ToJson([kind |-> kind, tid |-> t, clauses |-> clauses]))
SameAnswer(py, js) == py.t = js.t /\ (py.t = "exc" \/ py.v = js.v)
\* An input outside the documented forms (r.opt: decimal comma) is in the shared domain when the Python reference answers
\* it; where Python refuses it, the JavaScript side may offer it as a convenience of its own (or answer NaN).
Refuses(x) == x.t \in {"exc", "nonfinite"}
InSharedDomain(r) == "opt" \notin DOMAIN r \/ ~r.opt \/ ~Refuses(r.py)
Check(t) == LET r == Trace[t] IN ~InSharedDomain(r) \/ SameAnswer(r.py, r.js) \/
            Report("viol", t, {IF r.py.t = "exc" THEN "js_returns_where_python_refuses"
                               ELSE IF r.js.t = "exc" THEN "js_refuses_where_python_returns"
                               ELSE IF r.py.t # r.js.t THEN "different_result_type" ELSE "different_value"})
Init == tid \in DOMAIN Trace
Next == UNCHANGED tid
Spec == Init /\ [][Next]_tid
Checked == Check(tid)
=============================================================================
