SPECIFICATION Spec
CONSTANTS
 Threads = {1, 2, 3}
 NRows = 3
 PublishFirst = FALSE
INVARIANT Linearizable
INVARIANT AtomicTable
