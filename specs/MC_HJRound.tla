----------------------------- MODULE MC_HJRound -----------------------------
(* C08, third clause: within one height the outcome does not depend on the     *)
(* order in which different athletes take their trials.  From each start       *)
(* state (a competition whose last call set the bar) every athlete gets a      *)
(* planned attempt string; TLC explores every interleaving that keeps each     *)
(* athlete's own sequence and compares the end of the round with the           *)
(* round-robin order.                                                          *)
EXTENDS HighJump

CONSTANTS StartLogs,   \* set of logs ending with a "bar" entry
          PlanMenu     \* set of attempt strings (sequences of marks)

VARIABLES hj, start, plan0, plan, outs

Init == /\ start \in {FromActions(EmptyHJ, lg) : lg \in StartLogs}
        /\ plan0 \in [DOMAIN start.j -> PlanMenu]
        /\ hj = start /\ plan = plan0 /\ outs = [b \in DOMAIN start.j |-> <<>>]

Next == \E b \in DOMAIN plan : plan[b] # <<>> /\
           LET r == Do(hj, Entry(Head(plan[b]), b, 0)) IN
           /\ hj' = r[2]
           /\ plan' = [plan EXCEPT ![b] = Tail(@)]
           /\ outs' = [outs EXCEPT ![b] = Append(@, r[1])]
           /\ UNCHANGED <<start, plan0>>

Spec == Init /\ [][Next]_<<hj, start, plan0, plan, outs>>

\* reference order: attempt index outer, athletes (alphabetical) inner - as from_matrix does
RECURSIVE RoundRobin(_, _, _, _)
RoundRobin(h, p, o, who) ==
    IF \A b \in DOMAIN p : p[b] = <<>> THEN <<h, o>>
    ELSE IF who = <<>> THEN RoundRobin(h, p, o, Who(h))
    ELSE LET b == Head(who) IN
         IF p[b] = <<>> THEN RoundRobin(h, p, o, Tail(who))
         ELSE LET r == Do(h, Entry(Head(p[b]), b, 0)) IN
              RoundRobin(TLCEval(r[2]), TLCEval([p EXCEPT ![b] = Tail(@)]),
                         TLCEval([o EXCEPT ![b] = Append(@, r[1])]), Tail(who))

Done == \A b \in DOMAIN plan : plan[b] = <<>>
OrderIndependent ==
    Done => LET ref == RoundRobin(start, plan0, [b \in DOMAIN start.j |-> <<>>], Who(start)) IN
            /\ ObsNoLog(hj) = ObsNoLog(ref[1])
            /\ outs = ref[2]
View == <<[hj EXCEPT !.log = <<>>], [start EXCEPT !.log = <<>>], plan0, plan, outs>>
=============================================================================
