----------------------------- MODULE Trace_Athlon -----------------------------
(* C01 / C09 / C05 (combined events): observations of the real athlon_score /     *)
(* athlon_performance_needed.                                                     *)
(*  k = "seg":  segs = <<lo, hi, val>> runs of equal outcome over an ascending     *)
(*              sequence of centi-marks (contiguous or strided), for one           *)
(*              (gender, event, age, esaa, input form); val = points, -1 = None,   *)
(*              -100 = exception                                                   *)
(*  k = "age":  vals[a] = outcome at age a = 1..Len(vals) for one centi-mark       *)
(*  k = "unk":  an unknown gender/event pair                                       *)
(*  k = "need": target t, returned mark perf (centi, ongrid flag), library score   *)
(*              of the returned value (sAt) and of the next-worse grid mark        *)
EXTENDS Athlon, Json, IOUtils
VARIABLES tid
Trace == ndJsonDeserialize(IOEnv.TRACE_FILE)
Report(kind, t, clauses, at) == PrintT("@@" \o ToJson([kind |-> kind, tid |-> t, clauses |-> clauses, at |-> at]))

SegFail(r, s) ==
    LET k == KeyIdx(ScoreKey(r.g, r.e, r.esaa))
        lenient == k # 0 /\ NoFactorRegion(r.e, r.age)     \* scored event without an age factor, masters age: not specified
    IN IF lenient THEN (IF s[3] = -100 THEN {"raised_instead_of_score"} ELSE {})
       ELSE (IF ~(Covered(r.g, r.e, s[1], r.age, r.esaa) /\ Covered(r.g, r.e, s[2], r.age, r.esaa)) \/
                (Score(r.g, r.e, s[1], r.age, r.esaa) = s[3] /\ Score(r.g, r.e, s[2], r.age, r.esaa) = s[3])
             THEN {} ELSE {"points_differ_from_exact_formula"})
            \cup (IF s[3] >= -1 THEN {} ELSE {"raised_instead_of_score"})
MonoFail(r) ==
    LET k == KeyIdx(ScoreKey(r.g, r.e, r.esaa))
        S == r.segs
    IN IF k = 0 THEN {}
       ELSE IF \A i \in 1..(Len(S) - 1) : (S[i][3] >= 0 /\ S[i + 1][3] >= 0) =>
                   (IF KindOf[k] = "track" THEN S[i][3] >= S[i + 1][3] ELSE S[i][3] <= S[i + 1][3])
            THEN {} ELSE {"better_mark_scores_fewer_points"}
\* Second pass (r.re = <<mark, value, index of the first-pass run holding the mark>>, asked after the whole first pass and
\* in the opposite order): the relation "a better mark never scores fewer" also holds between a re-asked mark and the
\* first-pass values of its neighbours - the run it lies in (equal, if it has a better and a worse neighbour there) and
\* the next better / next worse runs.
RevFail(r) ==
    LET k == KeyIdx(ScoreKey(r.g, r.e, r.esaa))
        S == r.segs
    IN IF k = 0 \/ "re" \notin DOMAIN r THEN {}
       ELSE LET track == KindOf[k] = "track"
                Ok(x) == LET c == x[1]  v == x[2]  j == x[3]
                             worseIn == IF track THEN S[j][2] > c ELSE S[j][1] < c     \* the run holds a worse mark
                             betterIn == IF track THEN S[j][1] < c ELSE S[j][2] > c
                             jw == IF track THEN j + 1 ELSE j - 1                      \* next worse run
                             jb == IF track THEN j - 1 ELSE j + 1
                         IN \/ v < 0
                            \/ /\ (worseIn /\ S[j][3] >= 0) => v >= S[j][3]
                               /\ (betterIn /\ S[j][3] >= 0) => v <= S[j][3]
                               /\ (jw \in DOMAIN S /\ S[jw][3] >= 0) => v >= S[jw][3]
                               /\ (jb \in DOMAIN S /\ S[jb][3] >= 0) => v <= S[jb][3]
            IN IF \A i \in DOMAIN r.re : Ok(r.re[i]) THEN {} ELSE {"better_mark_scores_fewer_points"}
ReIndexOK(r) == "re" \notin DOMAIN r \/ \A i \in DOMAIN r.re : LET x == r.re[i] IN x[3] \in DOMAIN r.segs /\ r.segs[x[3]][1] <= x[1] /\ x[1] <= r.segs[x[3]][2]
Viol(r) ==
    CASE r.k = "seg" -> LET bad == {i \in DOMAIN r.segs : SegFail(r, r.segs[i]) # {}} IN
                        <<UNION {SegFail(r, r.segs[i]) : i \in bad} \cup MonoFail(r) \cup RevFail(r),
                          IF bad = {} THEN <<>> ELSE r.segs[CHOOSE i \in bad : \A j \in bad : i <= j]>>
      [] r.k = "age" -> LET bad == {a \in DOMAIN r.vals : Covered(r.g, r.e, r.c, a, r.esaa) /\ Score(r.g, r.e, r.c, a, r.esaa) # r.vals[a]
                                       /\ ~(KeyIdx(ScoreKey(r.g, r.e, r.esaa)) # 0 /\ NoFactorRegion(r.e, a) /\ r.vals[a] # -100)} IN
                        <<IF bad = {} THEN {} ELSE {"age_handling_differs"},
                          IF bad = {} THEN <<>> ELSE <<CHOOSE a \in bad : \A j \in bad : a <= j>>>>
      [] r.k = "unk" -> <<IF r.val = -1 THEN {} ELSE {"unknown_pair_not_none"}, <<>>>>
      [] r.k = "need" -> <<(IF r.known THEN NeededFail(r.t, r.sAt, r.sWorse) \cup (IF r.ongrid THEN {} ELSE {"needed_mark_off_grid"})
                                           \* negative targets behave as zero: the very same mark comes back
                                           \cup (IF "perf0" \in DOMAIN r /\ r.t < 0 /\ r.perf # r.perf0
                                                 THEN {"negative_target_differs_from_zero_target"} ELSE {})
                            ELSE IF r.none THEN {} ELSE {"unknown_pair_not_none"}), <<>>>>
\* model drift for the inverse: distance of the returned mark from the exact threshold (diagnostic)
Drift(r) == IF r.k = "seg" /\ ~ReIndexOK(r) THEN {"harness_run_index"} ELSE IF r.k = "need" /\ r.known /\ r.ongrid /\ r.t <= Len(Thr[KeyIdx(r.g \o "-" \o r.e)])
               /\ r.perf # Needed(KeyIdx(r.g \o "-" \o r.e), r.t) THEN {"model_needed_mark"} ELSE {}
Check(t) == LET r == Trace[t]
                v == Viol(r)
                d == Drift(r)
            IN /\ v[1] = {} \/ Report("viol", t, v[1], v[2])
               /\ d = {} \/ Report("drift", t, d, <<>>)
Init == tid \in DOMAIN Trace
Next == UNCHANGED tid
Spec == Init /\ [][Next]_tid
Checked == Check(tid)
=============================================================================
