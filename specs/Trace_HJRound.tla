---------------------------- MODULE Trace_HJRound ----------------------------
(* Order independence observed on the real object: each record holds one round *)
(* scenario - the observed pre-state and, for every executed interleaving, the *)
(* calls, their outcomes and the observed end-of-round snapshot.               *)
EXTENDS HighJump, Json, IOUtils
VARIABLES tid
Trace == ndJsonDeserialize(IOEnv.TRACE_FILE)

Report(kind, t, clauses) == PrintT("@@" \o ToJson([kind |-> kind, tid |-> t, clauses |-> clauses]))

PerAth(run, b) == LET idx == SelectSeq([i \in 1..Len(run.calls) |-> i], LAMBDA i : run.calls[i].b = b)
                  IN [k \in 1..Len(idx) |-> run.outs[idx[k]]]

RECURSIVE ModelRun(_, _, _)
ModelRun(h, calls, acc) ==
    IF calls = <<>> THEN <<h, acc>>
    ELSE LET r == Do(h, Head(calls)) IN ModelRun(TLCEval(r[2]), Tail(calls), TLCEval(Append(acc, r[1])))

Check(t) ==
    LET rec == Trace[t]
        R == rec.runs
        first == R[1]
        B == DOMAIN rec.pre.j
        viol == (IF \A k \in DOMAIN R : ObsNoLog(R[k].post) = ObsNoLog(first.post) THEN {} ELSE {"order_dependent_outcome"})
                \cup (IF \A k \in DOMAIN R : \A b \in B : PerAth(R[k], b) = PerAth(first, b) THEN {} ELSE {"order_dependent_acceptance"})
        drift == IF \A k \in DOMAIN R : LET m == ModelRun(rec.pre, R[k].calls, <<>>) IN
                                          m[1] = R[k].post /\ m[2] = R[k].outs
                 THEN {} ELSE {"model_round"}
    IN /\ viol = {} \/ Report("viol", t, viol)
       /\ drift = {} \/ Report("drift", t, drift)

Init == tid \in DOMAIN Trace
Next == UNCHANGED tid
Spec == Init /\ [][Next]_tid
Checked == Check(tid)
=============================================================================
