---------------------------- MODULE MC_HighJump ----------------------------
(* Exhaustive / simulated exploration of HighJump.tla.  In mode "all" every    *)
(* call of the alphabet (legal or not) is issued in every state.  `bad`        *)
(* carries the set of property clauses the last transition broke (empty in     *)
(* every good state), so the properties are the single invariant NoBadStep.    *)
EXTENDS HighJump, Json

CONSTANTS NBibs,       \* number of athletes (bibs "A".."D", alphabetical)
          BarValues,   \* heights (cm) that may be set; include 0 for the degenerate bar
          MaxH,        \* bound on the number of heights
          MaxDepth,    \* bound on behaviour length (0 = none)
          Mode,        \* "all": every call; "ok": accepted calls only;
                       \* "orderly": accepted calls of a well-formed competition (C03's quantifier)
          EmitEvery,   \* emit the witness log of every EmitEvery-th distinct state (0 = never)
          StartLogs,   \* set of logs; the initial states are the competitions they build
          WithDQ       \* TRUE: athletes may also be registered as DQ / DNS entries (extension XDQ)

VARIABLES hj, call, bad, taint   \* taint: a known finding (KF_*) has occurred in this history

BibSeq == SubSeq(AllBibs, 1, NBibs)
BibS == {BibSeq[i] : i \in DOMAIN BibSeq}
Calls == {Entry("add", b, 0) : b \in BibS} \cup {Entry("bar", "", h) : h \in BarValues}
         \cup {Entry(k, b, 0) : k \in Letters, b \in BibS}
         \cup (IF WithDQ THEN {Entry("addq", b, 0) : b \in BibS} ELSE {})

\* "orderly": everybody registers first, the bar moves only when the round is complete, and
\* nobody passes in a jump-off - the histories C03 quantifies over.
RoundComplete(h) ==
    LET ctx == RuleCtx(h) IN
    \A b \in DOMAIN h.j : \A k \in Letters : ~RuleAllowsC(h, ctx, Entry(k, b, 0))
Orderly(h, c) ==
    CASE c.op = "add" -> TRUE
      [] c.op = "bar" -> IF NH(h) = 0 THEN DOMAIN h.j = BibS ELSE RoundComplete(h)
      [] c.op = "-"   -> NRegR(h) = 0
      [] OTHER        -> TRUE

Init == /\ hj \in {FromActions(EmptyHJ, lg) : lg \in StartLogs}
        /\ call = Entry("init", "", 0) @@ [out |-> "ok"] /\ bad = {} /\ taint = FALSE

Next == /\ (MaxDepth = 0 \/ TLCGet("level") < MaxDepth)
        /\ LET ctx == RuleCtx(hj) IN \E c \in Calls :
            LET r == Do(hj, c) IN
            /\ Mode # "all" => r[1] = "ok"
            /\ Mode = "orderly" => Orderly(hj, c)
            /\ hj' = r[2]
            /\ call' = c @@ [out |-> r[1]]
            /\ taint' = (taint \/ (r[1] = "ok" /\ KF_BeatenReinstated(r[2])))
            \* (KF-HJ1 is repaired: a state in which a beaten jump-off participant is back is itself a broken clause,
            \* and nothing is suppressed after it any more)
            /\ bad' = StepClausesC(hj, ctx, c, r[1], r[2]) \cup (IF r[1] = "ok" THEN StateClauses(r[2]) ELSE {})
                      \cup (IF taint' THEN {"beaten_jumpoff_participant_reinstated"} ELSE {})

Spec == Init /\ [][Next]_<<hj, call, bad, taint>>

Bound == Len(hj.heights) <= MaxH
View == <<[hj EXCEPT !.log = <<>>], bad, taint>>

NoBadStep == bad = {}
ReplayOK == taint \/ ReplayClauses(hj) = {}
ReplayLogOK == "log_replay_differs" \notin ReplayClauses(hj)
RoundTripOK == "card_round_trip_differs" \notin ReplayClauses(hj)
\* known finding KF-HJ2: a pass recorded in a jump-off column re-ranks the field, which the
\* card import (ignoring passes) cannot reproduce
RoundTripOKnoJOpass == taint \/ KF_JumpOffPass(hj) \/ RoundTripOK

\* vacuity witnesses: the negation of each is checked to be *violated* (i.e. reachable)
JumpOffReached == hj.state # "jumpoff"
DrawnReached == hj.state # "drawn"
WonThenFinished == ~(hj.state = "finished" /\ NRegR(hj) > 0 /\ Cardinality(TiedFirst(hj, NRegR(hj))) = 1)

\* witness logs for replay into the real code
EmitLog == (Terminal(hj) \/ TLCGet("level") >= MaxDepth - 1 \/ Len(hj.heights) >= MaxH) =>
              PrintT("@@" \o ToJson([log |-> hj.log]))
\* extension XDQ: witnesses of states in which a property clause fails (never an error here: the run is informational)
EmitBad == (bad # {} /\ TLCGet("distinct") % 7 = 0) => PrintT("@@" \o ToJson([log |-> hj.log, bad |-> bad]))
\* witnesses of the known finding, so that it is reproduced on the real code in every run
EmitTaint == (taint /\ TLCGet("distinct") % 50 = 0) => PrintT("@@" \o ToJson([log |-> hj.log, taint |-> TRUE]))
\* exhaustive mode: one (shortest) witness per distinct abstract state, sampled 1 in EmitEvery
EmitState == (EmitEvery > 0 /\ call.out = "ok" /\ TLCGet("distinct") % EmitEvery = 0) =>
              PrintT("@@" \o ToJson([log |-> hj.log]))
=============================================================================
