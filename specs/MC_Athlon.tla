------------------------------ MODULE MC_Athlon ------------------------------
(* Model run for C01 / C05 / C09: theorems about the reference itself.          *)
EXTENDS Athlon
VARIABLES k, phase
Init == k \in DOMAIN Keys /\ phase = 0
Next == phase < 2 /\ phase' = phase + 1 /\ k' = k
Spec == Init /\ [][Next]_<<k, phase>>

\* thresholds never decrease (so points never decrease as the mark improves), start beyond the
\* zero point and end at the sweep limit
ThresholdsSane ==
    phase # 0 \/ LET t == Thr[k] IN
       /\ Len(t) > 100
       /\ t[1] >= 1 /\ t[Len(t)] <= NMaxOf[k]
       /\ \A i \in 1..(Len(t) - 1) : t[i] <= t[i + 1]
\* the inverse relation holds for the reference and determines the mark uniquely
InverseExact ==
    phase # 1 \/ \A t \in 1..(IF Len(Thr[k]) > 1500 THEN 1500 ELSE Len(Thr[k])) :
       LET c == Needed(k, t) IN
       /\ PointsAt(k, c) >= t
       /\ PointsAt(k, Worse(k, c)) < t
\* the age adjustment is monotone and the band rule is the one stated
AdjustMonotone ==
    phase # 2 \/ \A f \in {2400, 9999, 10000, 11635, 500000} : \A c \in {0, 1, 2, 9999, 10000, 10001, 123456} :
       /\ MulDiv(c, f, TRUE) <= MulDiv(c + 1, f, TRUE)
       /\ MulDiv(c, f, FALSE) <= MulDiv(c + 1, f, FALSE)
       /\ MulDiv(c, f, FALSE) <= MulDiv(c, f, TRUE)
       /\ MulDiv(c, 10000, TRUE) = c /\ MulDiv(c, 10000, FALSE) = c
BandRule ==
    phase # 2 \/ (/\ \A a1 \in 1..34 : Factor("M", a1, "100") = 10000
                 /\ \A a2 \in 110..130 : Factor("F", a2, "LJ") = Factor("F", 110, "LJ")
                 /\ \A a3 \in 35..114 : Factor("M", a3, "SP") = Factor("M", (a3 \div 5) * 5, "SP")
                 /\ Score("M", "NA", 1000, 0, FALSE) = NoScore /\ Score("X", "100", 1000, 0, FALSE) = NoScore)
=============================================================================
