SPECIFICATION Spec
CONSTANTS
  KeySet = {"v1", "v2", "i1", "i2", "b1"}
  MaxLen = 2
  MaxHist = 3
  AsWas = FALSE
INVARIANT HistoryIndependent
INVARIANT CacheBounded
INVARIANT NoDuplicateKeys
INVARIANT CachedTruth
INVARIANT EmitHist
CHECK_DEADLOCK FALSE
