------------------------------ MODULE AgeGroups ------------------------------
(***************************************************************************)
(* C13 - UK age groups (athlib.uka.agegroups.calc_uka_age_group).          *)
(* Dates are proleptic Gregorian day ordinals (Python date.toordinal());   *)
(* Civil(n) converts to <<y, m, d>> in integer arithmetic.                 *)
(***************************************************************************)
EXTENDS Naturals, Integers, Sequences, FiniteSets, TLC

Civil(n) ==
    LET z == n + 305
        era == z \div 146097
        doe == z - era * 146097
        yoe == (doe - doe \div 1460 + doe \div 36524 - doe \div 146096) \div 365
        doy == doe - (365 * yoe + yoe \div 4 - yoe \div 100)
        mp == (5 * doy + 2) \div 153
        d == doy - (153 * mp + 2) \div 5 + 1
        m == IF mp < 10 THEN mp + 3 ELSE mp - 9
        y == yoe + era * 400 + (IF m <= 2 THEN 1 ELSE 0)
    IN <<y, m, d>>
IsLeap(y) == (y % 4 = 0 /\ y % 100 # 0) \/ y % 400 = 0
DaysIn(y, m) == IF m = 2 THEN (IF IsLeap(y) THEN 29 ELSE 28) ELSE IF m \in {4, 6, 9, 11} THEN 30 ELSE 31
Before(m1, d1, m2, d2) == m1 < m2 \/ (m1 = m2 /\ d1 < d2)

\* age in completed years on ref; a 29 February birthday counts on 28 February in common years
Age(b, ref) ==
    LET bd == IF b[3] > DaysIn(ref[1], b[2]) THEN DaysIn(ref[1], b[2]) ELSE b[3]
    IN ref[1] - b[1] - (IF Before(ref[2], ref[3], b[2], bd) THEN 1 ELSE 0)

Band(age) == "V" \o ToString((age \div 5) * 5)
Adult(ageDay, vets) == IF ageDay < 35 THEN "SEN" ELSE IF vets THEN Band(ageDay) ELSE "SEN"

\* Rule 107 (track and field): ages on 31 August and 31 December of the competition's
\* calendar year and on the day
TF(b, m, vets, underage) ==
    LET a31 == Age(b, <<m[1], 8, 31>>)
        dec == Age(b, <<m[1], 12, 31>>)
        day == Age(b, m)
    IN IF underage /\ a31 < 9 THEN "U9"
       ELSE IF a31 < 11 THEN "U11"
       ELSE IF a31 <= 12 THEN "U13"
       ELSE IF a31 <= 14 THEN "U15"
       ELSE IF a31 <= 16 THEN "U17"
       ELSE IF dec < 20 THEN "U20"
       ELSE Adult(day, vets)

\* Rules 207 / 507 (road, cross country): age on the day for the youngest groups, otherwise on
\* the latest 31 August not after the day
XC(b, m, vets, underage) ==
    LET cy == IF Before(m[2], m[3], 8, 31) THEN m[1] - 1 ELSE m[1]
        a31 == Age(b, <<cy, 8, 31>>)
        day == Age(b, m)
    IN IF underage /\ day < 9 THEN "U9"
       ELSE IF day < 11 THEN "U11"
       ELSE IF a31 <= 12 THEN "U13"
       ELSE IF a31 <= 14 THEN "U15"
       ELSE IF a31 <= 16 THEN "U17"
       ELSE IF a31 <= 19 THEN "U20"
       ELSE Adult(day, vets)

Ref(cat, b, m, vets, underage) == IF cat = "TF" THEN TF(b, m, vets, underage) ELSE XC(b, m, vets, underage)
\* where the property asserts equality with the rule text
Asserted(cat, m) == IF cat = "TF" THEN m[2] <= 9
                    ELSE ~(m[2] = 9 \/ (m[2] = 8 /\ m[3] = 31))

Labels == <<"U9", "U11", "U13", "U15", "U17", "U20", "SEN">> \o [i \in 1..30 |-> "V" \o ToString(30 + 5 * i)]
IsLabel(s) == \E i \in DOMAIN Labels : Labels[i] = s
Rank(s) == CHOOSE i \in DOMAIN Labels : Labels[i] = s
IsMasters(s) == IsLabel(s) /\ Rank(s) > 7
=============================================================================
