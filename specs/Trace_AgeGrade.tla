---------------------------- MODULE Trace_AgeGrade ----------------------------
(* C14 / C15: observations of the five wma_* wrappers.                            *)
(*  k = "ag":   one (table, gender, event, age): f (factor), b (open best),        *)
(*              timed, perfs = <<grade limbs, ulps to the defining quotient>>       *)
(*              along an ascending performance grid, atbest = grade of the open    *)
(*              best itself                                                        *)
(*  k = "sp":   the same query through several spellings: vs = <<f, b, grade>>      *)
(*  k = "ip":   one (table, gender, age): rows (tabulated running rows) and         *)
(*              queries <<d_mm, f, b>> in ascending distance                        *)
EXTENDS AgeGrade, Json, IOUtils
VARIABLES tid
Trace == ndJsonDeserialize(IOEnv.TRACE_FILE)
Report(kind, t, clauses, at) == PrintT("@@" \o ToJson([kind |-> kind, tid |-> t, clauses |-> clauses, at |-> at]))

AgViol(r) ==
    (IF IsFinitePos(r.f) THEN {} ELSE {"factor_not_finite_positive"})
    \cup (IF IsFinitePos(r.b) THEN {} ELSE {"open_best_not_finite_positive"})
    \cup (IF \A i \in DOMAIN r.perfs : IsFinitePos(r.perfs[i][1]) THEN {} ELSE {"grade_not_finite_positive"})
    \cup (IF \A i \in DOMAIN r.perfs : r.perfs[i][2] <= 4 THEN {} ELSE {"grade_differs_from_standard_over_performance"})
    \cup (IF \A i \in 1..(Len(r.perfs) - 1) : Raised(r.perfs[i][1]) \/ Raised(r.perfs[i + 1][1]) \/
               (IF r.timed THEN FLess(r.perfs[i + 1][1], r.perfs[i][1]) ELSE FLess(r.perfs[i][1], r.perfs[i + 1][1]))
          THEN {} ELSE {"better_performance_does_not_grade_higher"})
    \cup (IF r.f # One \/ r.atbest = One THEN {} ELSE {"open_best_at_factor_one_does_not_grade_one"})
    \* the open best of a tabulated event and the factor at a tabulated age are the published table's (tb / tf: read from the
    \* data file by the harness; <<-1,0,0>> = not applicable)
    \cup (IF "tb" \notin DOMAIN r \/ Raised(r.tb) \/ r.b = r.tb THEN {} ELSE {"open_best_differs_from_table"})
    \cup (IF "tf" \notin DOMAIN r \/ Raised(r.tf) \/ r.f = r.tf THEN {} ELSE {"factor_at_tabulated_age_differs_from_table"})
    \* ages past the last column use the last column: the very same factor (flast = factor at the last column)
    \cup (IF "past" \in DOMAIN r /\ r.past /\ r.f # r.flast THEN {"age_past_last_column_does_not_use_last_column"} ELSE {})
SpViol(r) == IF \A i \in DOMAIN r.vs : r.vs[i] = r.vs[1] /\ \A j \in 1..3 : ~Raised(r.vs[i][j])
             THEN {} ELSE {"spelling_changes_result"}
\* C15
IpQuery(rows, q) ==
    LET d == q[1]
        lo == Shorter(rows, d)   hi == Longer(rows, d)
        first == rows[1][1]      last == rows[Len(rows)][1]
    IN IF Raised(q[2]) \/ Raised(q[3]) THEN {"distance_query_raised"}
       ELSE IF ~(IsFinitePos(q[2]) /\ IsFinitePos(q[3])) THEN {"distance_result_not_finite_positive"}
       ELSE IF Tabulated(rows, d) THEN {}
       ELSE IF lo = 0 THEN (IF \E i \in RowsAt(rows, first) : Near(q[2], rows[i][2], 4) THEN {} ELSE {"below_table_not_clamped_to_first_row"})
       ELSE IF hi = 0 THEN (IF \E i \in RowsAt(rows, last) : Near(q[2], rows[i][2], 4) THEN {} ELSE {"beyond_table_not_clamped_to_last_row"})
       ELSE LET E == RowsAt(rows, lo) \cup RowsAt(rows, hi)
                F == {rows[i][2] : i \in E}
                B == {rows[i][3] : i \in E}
            IN (IF (FLeq(FMin(F), q[2]) \/ Near(FMin(F), q[2], 4)) /\ (FLeq(q[2], FMax(F)) \/ Near(FMax(F), q[2], 4)) THEN {} ELSE {"factor_not_between_neighbouring_events"})
               \cup (IF (FLeq(FMin(B), q[3]) \/ Near(FMin(B), q[3], 4)) /\ (FLeq(q[3], FMax(B)) \/ Near(FMax(B), q[3], 4)) THEN {} ELSE {"open_best_not_between_neighbouring_events"})
IpViol(r) ==
    LET bad == {i \in DOMAIN r.queries : IpQuery(r.rows, r.queries[i]) # {}}
        first == r.rows[1][1]   last == r.rows[Len(r.rows)][1]
        \* a distance tabulated twice (track and road row, e.g. 5000 and 5K) has two open bests: pairs with an
        \* end point at such a distance are not compared
        Multi == {x \in Dists(r.rows) : Cardinality(RowsAt(r.rows, x)) > 1}
        inc == {i \in 1..(Len(r.queries) - 1) :
                  r.queries[i][1] \notin Multi /\ r.queries[i + 1][1] \notin Multi /\
                  r.queries[i][1] >= first /\ r.queries[i + 1][1] <= last /\ r.queries[i][1] < r.queries[i + 1][1] /\
                  ~Raised(r.queries[i][3]) /\ ~Raised(r.queries[i + 1][3]) /\ ~FLess(r.queries[i][3], r.queries[i + 1][3])}
    IN <<UNION {IpQuery(r.rows, r.queries[i]) : i \in bad} \cup (IF inc = {} THEN {} ELSE {"open_best_does_not_increase_with_distance"}),
         IF bad # {} THEN r.queries[CHOOSE i \in bad : \A j \in bad : i <= j][1]
         ELSE IF inc # {} THEN r.queries[CHOOSE i \in inc : \A j \in inc : i <= j][1] ELSE 0>>
Viol(r) == CASE r.k = "ag" -> <<AgViol(r), 0>> [] r.k = "sp" -> <<SpViol(r), 0>> [] r.k = "ip" -> IpViol(r)
Check(t) == LET v == Viol(Trace[t]) IN v[1] = {} \/ Report("viol", t, v[1], v[2])
Init == tid \in DOMAIN Trace
Next == UNCHANGED tid
Spec == Init /\ [][Next]_tid
Checked == Check(tid)
\* model theorems about the float encoding and the bracket selection
Theorems ==
    /\ IsFinitePos(One) /\ ~IsFinitePos(<<0, 0, 0>>) /\ ~IsFinitePos(<<1048064, 0, 0>>) /\ ~IsFinitePos(<<1572352, 0, 0>>)
    /\ FLess(<<523776, 0, 0>>, <<523776, 0, 1>>) /\ FLess(<<523775, 2097151, 4194303>>, One)
    /\ UlpDist(<<523775, 2097151, 4194303>>, <<523775, 2097151, 4194300>>) = 3
    /\ UlpDist(<<523776, 1, 0>>, <<523776, 0, 4194303>>) = 1
    /\ LET rows == <<<<50000, One, One>>, <<100000, One, One>>, <<100000, One, One>>, <<200000, One, One>>>> IN
         \A d \in {20000, 50000, 70000, 100000, 150000, 200000, 300000} :
            /\ (Shorter(rows, d) = 0) = (d <= 50000) /\ (Longer(rows, d) = 0) = (d >= 200000)
            /\ Shorter(rows, d) < d /\ (Longer(rows, d) = 0 \/ Longer(rows, d) > d)
=============================================================================
