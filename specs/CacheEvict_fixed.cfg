SPECIFICATION Spec
CONSTANTS
 Threads = {1, 2, 3}
 MaxLen = 2
 Locked = TRUE
 Prefill <- PrefillDef
INVARIANT NoError
INVARIANT Bounded
