"""Engine shared by C02 / C03 / C08: HighJump.tla model runs, replay into the real
HighJumpCompetition, trace validation by TLC (Trace_HighJump.tla), verdicts."""
import os, json, random, itertools, time
from multiprocessing import Pool
from . import common, hj
from .common import Report, Scratch, MachineryError

E = lambda op, b='', h=0: {'op': op, 'b': b, 'h': h}
BIBS = 'ABCD'

C02_CLAUSES = {'accepted_against_rule', 'refused_against_rule', 'refusal_changed_observable',
               'refusal_not_rule_violation', 'state_regressed', 'accepted_after_end', 'card_shape',
               'state_vs_cards'}
C03_CLAUSES = {'best_is_not_max_cleared', 'not_standard_ranking', 'unplaced_iff_no_clearance',
               'won_without_single_leader', 'tie_for_first_left_standing', 'places_differ_from_countback',
               'drawn_participants_do_not_share_first', 'jumpoff_survivor_not_first', 'jumpoff_member_outside_top',
               'jumpoff_member_behind_untied', 'untied_place_changed'}
C08_CLAUSES = {'log_replay_differs', 'card_round_trip_differs', 'order_dependent_outcome',
               'order_dependent_acceptance'}
CLAUSES = {'C02': C02_CLAUSES, 'C03': C03_CLAUSES, 'C08': C08_CLAUSES}


def mc_cfg(specdir, name, nb, bars, maxh, maxdepth, mode, emit=0, invariants=('NoBadStep',), view=True,
           starts=None, with_dq=False):
    """Write <name>.tla (root module with the start logs) and <name>.cfg."""
    starts = starts or [[]]
    with open(os.path.join(specdir, name + '.tla'), 'w') as f:
        f.write('---- MODULE %s ----\nEXTENDS MC_HighJump\nStartLogsDef == {%s}\n====\n' % (
            name, ',\n  '.join(common.tla_val(lg) for lg in starts)))
    txt = ['SPECIFICATION Spec', 'CONSTANTS', '  NBibs = %d' % nb,
           '  BarValues = {%s}' % ', '.join(str(b) for b in bars), '  MaxH = %d' % maxh,
           '  MaxDepth = %d' % maxdepth, '  Mode = "%s"' % mode, '  EmitEvery = %d' % emit,
           '  StartLogs <- StartLogsDef', '  WithDQ = %s' % ('TRUE' if with_dq else 'FALSE'), 'CONSTRAINT Bound']
    if view:
        txt.append('VIEW View')
    for i in invariants:
        txt.append('INVARIANT %s' % i)
    txt.append('CHECK_DEADLOCK FALSE')
    with open(os.path.join(specdir, name + '.cfg'), 'w') as f:
        f.write('\n'.join(txt) + '\n')
    return name


def script(text):
    """'+A +B |100 Ao Bx' -> list of calls."""
    calls = []
    for tok in text.split():
        if tok[0] == '+':
            calls.append(E('addq', tok[1:-1]) if tok.endswith('!') else E('add', tok[1:]))
        elif tok[0] == '|':
            calls.append(E('bar', '', int(tok[1:])))
        else:
            calls.append(E(tok[1:], tok[0]))
    return calls


# constructed regular phases that end in a tie for first (DESIGN 5, MC_jumpoff)
TIE_STARTS = [
    '+A +B +C |100 Ao Bo Co |105 Ax Bx Cx Ax Bx Cx Ax Bx Cx',                 # three tied
    '+A +B +C |100 Ao Bo Cx Co |105 Ax Bx Cx Ax Bx Cx Ax Bx Cx',              # two tied + one lower on countback
    '+A +B +C |100 Ao Bo Co |105 Ao Bo Cx Cx Cx |110 Ax Bx Ax Bx Ax Bx',      # two tied at 105, third best 100
    '+A +B +C |100 Ao Bo Co |105 Ax Bx Cr Ax Bx Ax Bx',                       # tie with a retired member
    '+A +B +C +D |100 Ao Bo Co Dx Do |105 Ax Bx Cx Dx Ax Bx Cx Dx Ax Bx Cx Dx',  # three tied + one lower (4 athletes)
    '+A +B |100 Ax Ao Bx Bo |105 Ax Bx Ax Bx Ax Bx',                          # two tied with failures on the card
    # a member of the tie went out one height EARLIER than the others (who passed it): flags left over from the earlier
    # height meet the re-instatement (seed C02-e was caught or missed depending on the sampled witnesses until these starts)
    '+A +B |100 Ao Bo |105 Ax Ax Ax B- |110 Bx Bx Bx',
    '+A +B +C |100 Ao Bo Co |105 Ax Ax Ax B- C- |110 Bx Cx Bx Cx Bx Cx',
]


def alphabet(nb, bars):
    bibs = BIBS[:nb]
    return [E('add', b) for b in bibs] + [E('bar', '', h) for h in bars] + \
           [E(k, b) for k in 'ox-r' for b in bibs]


# ----------------------------------------------------------------------------- generators

def gen_competition(rng, nb, wild=0.0, maxreg=4, maxjo=3):
    """A competition-shaped random script (list of calls) for the real object.  Athletes plan an
    attempt string per height; trials are interleaved randomly; with probability `wild` a
    random (possibly illegal) call is inserted.  Heights beyond the end are still issued so
    refusals after the end are exercised too."""
    bibs = list(BIBS[:nb])
    rng.shuffle(bibs)
    calls = [E('add', b) for b in bibs]
    menu = ['o'] * 6 + ['xo'] * 3 + ['xxo'] * 2 + ['xxx'] * 3 + ['x-', 'xx-', '-', '-', 'r', 'xr', 'xxr', 'x', 'xx', '']
    h = 100 + 5 * rng.randrange(3)
    alpha = alphabet(nb, [0, 95, 100, 105, 110, 115, 120, 125, 130])
    nreg = rng.randint(1, maxreg)
    for _ in range(nreg):
        calls.append(E('bar', '', h))
        plans = {b: list(rng.choice(menu)) for b in bibs}
        order = [b for b in bibs for _ in plans[b]]
        rng.shuffle(order)
        for b in order:
            calls.append(E(plans[b].pop(0), b))
            if rng.random() < wild:
                calls.append(rng.choice(alpha))
        h += 5 * rng.randint(1, 2)
    # jump-off style continuation: bar raised / repeated / lowered, one attempt each
    for _ in range(rng.randint(0, maxjo)):
        h = h + rng.choice([-10, -5, 0, 5, 5])
        calls.append(E('bar', '', max(h, 5)))
        order = bibs[:]
        rng.shuffle(order)
        for b in order:
            calls.append(E(rng.choice('ooxxxxr-' if rng.random() < 0.3 else 'oxxx'), b))
            if rng.random() < wild:
                calls.append(rng.choice(alpha))
    return calls


def gen_tie_competition(rng, nb, maxjo=3):
    """Scripts engineered to end the regular phase in a tie for first (jump-off / draw)."""
    bibs = list(BIBS[:nb])
    rng.shuffle(bibs)
    calls = [E('add', b) for b in bibs]
    ntie = rng.randint(2, nb) if nb >= 2 else 1
    tied, rest = bibs[:ntie], bibs[ntie:]
    nreg = rng.randint(1, 3)
    hs = [100 + 5 * i for i in range(nreg + 1)]
    common_card = [rng.choice(['o', 'xo', 'o', '-', 'xxo']) for _ in range(nreg)]
    if 'o' not in ''.join(common_card):
        common_card[-1] = 'o'
    for i in range(nreg):
        calls.append(E('bar', '', hs[i]))
        seqs = {b: list(common_card[i]) for b in tied}
        for b in rest:
            seqs[b] = list(rng.choice(['o', 'xo', 'xxx', 'xxo', 'r', '-'])) if i < nreg - 1 else list(rng.choice(['xxx', 'xo', 'xxo', 'r']))
        order = [b for b in bibs for _ in seqs[b]]
        rng.shuffle(order)
        for b in order:
            calls.append(E(seqs[b].pop(0), b))
    calls.append(E('bar', '', hs[nreg]))
    fin = {b: list(rng.choice(['xxx', 'xxx', 'xxx', 'r', 'xr'])) for b in bibs}
    order = [b for b in bibs for _ in fin[b]]
    rng.shuffle(order)
    for b in order:
        calls.append(E(fin[b].pop(0), b))
    h = hs[nreg]
    for _ in range(rng.randint(1, maxjo)):
        h = max(5, h + rng.choice([-10, -5, -5, 0, 5]))
        calls.append(E('bar', '', h))
        order = bibs[:]
        rng.shuffle(order)
        for b in order:
            calls.append(E(rng.choice('oxxxoxr'), b))
    return calls


# ----------------------------------------------------------------------------- replay workers

def _replay_job(job):
    kind, calls, alpha, extras = job
    if kind == 'full':
        steps = hj.run_behaviour(calls, alpha, extras)
        return {'steps': steps}
    # 'last': only the last call is recorded (with probes), from the observed pre-state
    HJ, RV = hj.lib()
    c = HJ()
    for call in calls[:-1]:
        hj.apply(c, call, RV)
    pre = hj.snapshot(c)
    out = hj.apply(c, calls[-1], RV)
    post = hj.snapshot(c)
    st = {'c': calls[-1], 'out': out, 'post': post, 'v': hj.views(c), 'pr': hj.probe_all(c, post, alpha, RV) if alpha else []}
    if extras:
        st['rep'] = hj.replay_log(c)
        st['rt'] = hj.round_trip(c, HJ)
    if len(calls) == 1:
        return {'steps': [st]}
    return {'pre': pre, 'steps': [st]}


def replay_all(jobs, procs=None):
    procs = procs or common.NCPU
    if not jobs:
        return []
    with Pool(min(procs, max(1, len(jobs)))) as pool:
        return pool.map(_replay_job, jobs, chunksize=max(1, len(jobs) // (procs * 8)))


# ----------------------------------------------------------------------------- main engine

def validate_traces(specdir, scratch, traces, rep, nshards=None):
    """Feed recorded traces to Trace_HighJump.tla in shards; returns list of reports
    (dicts with kind, trace index, step, probe, clauses)."""
    nshards = nshards or common.NCPU
    # balance shards by recorded work (steps + probes), largest first, round robin
    weight = lambda k: sum(1 + len(s_.get('pr', [])) for s_ in traces[k]['steps'])
    order = sorted(range(len(traces)), key=weight, reverse=True)
    nshards = max(1, min(nshards, len(order)))
    shards = [order[i::nshards] for i in range(nshards)]
    envs = []
    for i, idx in enumerate(shards):
        p = scratch.file('trace_%d.ndjson' % i)
        common.write_ndjson(p, (traces[k] for k in idx))
        envs.append({'TRACE_FILE': p})
    results = common.run_tlc_shards(specdir, 'Trace_HighJump', 'Trace_HighJump.cfg', envs, workers_each=1,
                                    timeout=TLC_TIMEOUT, heap='3g')
    out = []
    nsteps = sum(len(t['steps']) for t in traces)
    for idx, r in zip(shards, results):
        want = sum(len(traces[k]['steps']) for k in idx) + len(idx)
        if r.distinct != want:
            raise MachineryError('trace shard not fully consumed: %d states, expected %d' % (r.distinct, want))
        rep.absorb_tlc(r, traces=len(idx))
        for pr in r.printed:
            pr['trace'] = idx[pr['tid'] - 1]
            out.append(pr)
    rep.count('trace_steps_validated', nsteps)
    _binding_selftest(specdir, scratch, traces, out)
    return out


def _binding_selftest(specdir, scratch, traces, reports):
    """DESIGN section 7: traces TLC accepted are corrupted in one recorded field of their last step - a public place, the
    competition state - and judged again; a trace specification that still accepts them is not bound to what was recorded."""
    import copy
    if os.environ.get('VERIF_NO_SELFTEST'):
        return
    flagged = {pr['trace'] for pr in reports}
    bad = []
    for k, t in enumerate(traces):
        if k in flagged or not t['steps'] or len(t['steps']) > 40:
            continue
        c = copy.deepcopy(t)
        post = c['steps'][-1].get('post')
        if not isinstance(post, dict) or not post.get('j'):
            continue
        if len(bad) % 2 == 0:
            b = sorted(post['j'])[0]
            post['j'][b]['pub'] = 9                      # a public place nobody can hold
        else:
            post['state'] = 'scheduled' if post.get('state') != 'scheduled' else 'finished'
        c['steps'][-1]['pr'] = []
        bad.append(c)
        if len(bad) >= 6:
            break
    if not bad:
        return
    p = scratch.file('trace_selftest.ndjson')
    common.write_ndjson(p, bad)
    r = common.run_tlc_shards(specdir, 'Trace_HighJump', 'Trace_HighJump.cfg', [{'TRACE_FILE': p}], workers_each=1,
                              timeout=TLC_TIMEOUT, heap='3g')[0]
    rejected = len({pr['tid'] for pr in r.printed})
    common.SELFTESTS.append({'trace_spec': 'Trace_HighJump', 'corrupted': len(bad), 'rejected': rejected})
    if rejected < len(bad):
        raise MachineryError('binding self-test: Trace_HighJump accepted %d of %d corrupted traces' % (len(bad) - rejected, len(bad)))


KNOWN_FINDING_HISTORIES = {
    # former KF-HJ1 (repaired by ae36192, kept as a regression scenario): C is beaten at the first jump-off height, A and
    # B then fail at a height not above their best: all three used to be re-instated and C went on to "win"
    'C02': ['+A +B +C |100 Ao Bo Co |105 Axxx Bxxx Cxxx |100 Ao Bo Cx |105 Ax Bx |110 Co Ax Bx'],
    'C03': ['+A +B +C |100 Ao Bo Co |105 Axxx Bxxx Cxxx |100 Ao Bo Cx |105 Ax Bx |110 Co Ax Bx'],
    # KF-HJ2: a pass in a jump-off column
    'C08': ['+A +B |100 Ao Bo |105 Axxx Bxxr |100 A-'],
}


def _model_run(args):
    specdir, name, kw = args
    return name, common.run_tlc(specdir, name, name + '.cfg', **kw)


TLC_TIMEOUT = 3000


def run(pid, tier):
    global TLC_TIMEOUT
    TLC_TIMEOUT = 3000 if tier == 'quick' else 14400      # thorough: a loaded machine must not turn into a machinery failure
    rep = Report(pid, tier, 'model_checking')
    rng = random.Random(common.seed() * 7919 + {'C02': 2, 'C03': 3, 'C08': 8}[pid])
    quick = tier == 'quick'
    want = CLAUSES[pid]
    with Scratch(pid) as sc:
        specdir = common.prepare_spec_dir(sc)
        # ---------------------------------------------------------------- (a) model runs, concurrently
        runs = []
        if pid == 'C02':
            bars = [0, 100, 105] if quick else [0, 100, 105, 110]
            exh = dict(nb=2, bars=bars, maxh=3, mode='all', emit=40 if quick else 25)
            tie = dict(nb=4, bars=[95, 100, 105, 110], maxh_extra=1 if quick else 2, mode='all', emit=15 if quick else 40)
        elif pid == 'C03':
            exh = dict(nb=2, bars=[100, 105] if quick else [100, 105, 110], maxh=3 if quick else 4, mode='orderly', emit=8 if quick else 40)
            tie = dict(nb=4, bars=[95, 100, 105] if quick else [95, 100, 105, 110], maxh_extra=2 if quick else 3,
                       mode='orderly', emit=8 if quick else 60)
        else:
            exh = dict(nb=2, bars=[100, 105], maxh=2, mode='ok', emit=4) if quick else \
                dict(nb=2, bars=[100, 105, 110], maxh=3, mode='ok', emit=120)
            tie = dict(nb=4, bars=[95, 100, 105], maxh_extra=1 if quick else 2, mode='ok', emit=20 if quick else 60)
        invs = ['NoBadStep', 'EmitState', 'EmitTaint'] + (['ReplayLogOK', 'RoundTripOKnoJOpass'] if pid == 'C08' else [])
        n1 = mc_cfg(specdir, 'MC_exh', exh['nb'], exh['bars'], exh['maxh'], 0, exh['mode'], exh['emit'], invs)
        runs.append((specdir, n1, dict(workers=8, timeout=TLC_TIMEOUT, heap='8g')))
        starts = [script(t) for t in TIE_STARTS]
        tie_names = []
        for k, st in enumerate(starts):
            nreg = sum(1 for c in st if c['op'] == 'bar')
            nath = sum(1 for c in st if c['op'] == 'add')
            # in the accepted-calls-only modes nobody can register after the start: size the alphabet to the start
            nb_ = tie['nb'] if tie['mode'] == 'all' else nath
            extra = tie['maxh_extra']
            if quick and nath >= 4 and extra > 1:
                extra -= 1          # the 4-athlete start explores one jump-off height less in the quick tier
            if not quick and k in (0, 4) and extra > 2:
                extra -= 1          # three-way jump-offs branch three ways per round: one height less than the two-way ones
            nm = mc_cfg(specdir, 'MC_tie%d' % k, nb_, tie['bars'], nreg + extra, 0, tie['mode'],
                        tie['emit'], invs, starts=[st])
            tie_names.append(nm)
            runs.append((specdir, nm, dict(workers=4 if nath >= 3 and k in (0, 4) else 2, timeout=TLC_TIMEOUT, heap='3g')))
        nsim = {'C02': 40, 'C03': 60, 'C08': 30}[pid] * (1 if quick else 8)
        sim_names = []
        for k in range(4):
            nm = mc_cfg(specdir, 'MC_sim%d' % k, 4, [100, 105, 110, 115, 120], 7, 60, 'orderly', 0,
                        ['NoBadStep', 'EmitLog'], view=False)
            sim_names.append(nm)
            runs.append((specdir, nm, dict(workers=1, simulate='num=%d' % nsim, depth=60,
                                           seed_=common.seed() * 101 + 11 + k, deadlock=False, timeout=TLC_TIMEOUT, heap='2g')))
        from concurrent.futures import ThreadPoolExecutor
        if os.environ.get('HJ_MODEL_TIMING'):        # development aid: size the models one by one
            for sd, nm, kw in runs:
                if os.environ.get('HJ_MODEL_ONLY') and nm not in os.environ['HJ_MODEL_ONLY'].split(','):
                    continue
                kw = dict(kw, workers=16 if not kw.get('simulate') else 1, timeout=int(os.environ['HJ_MODEL_TIMING']), check=False)
                t0 = time.time()
                r = common.run_tlc(sd, nm, nm + '.cfg', **kw)
                print('TIMING %s %s: %.0fs distinct=%s generated=%s depth=%s rc=%s %s' % (pid, nm, time.time() - t0, r.distinct, r.generated, r.depth, r.rc, r.errors[:1]), flush=True)
            raise MachineryError('timing run only')
        with ThreadPoolExecutor(max_workers=len(runs)) as ex:
            results = dict(ex.map(_model_run, runs))
        for nm, r in results.items():
            if r.violated:
                raise MachineryError('the model itself violates %s in %s: the specification must be corrected\n%s'
                                     % (r.violated, nm, r.out[-3000:]))
            rep.absorb_tlc(r)
        r = results[n1]
        rep.setcov('exhaustive_model', dict(athletes=exh['nb'], bar_values=exh['bars'], max_heights=exh['maxh'],
                                             mode=exh['mode'], distinct_states=r.distinct, transitions=r.generated,
                                             depth=r.depth))
        rep.setcov('jumpoff_models', {nm: dict(start=TIE_STARTS[k], distinct_states=results[nm].distinct,
                                               transitions=results[nm].generated, depth=results[nm].depth)
                                      for k, nm in enumerate(tie_names)})
        rep.setcov('exhaustive', False)

        # ---------------------------------------------------------------- (b) replay into the real code
        jobs = []
        extras = pid == 'C08'
        alpha = alphabet(exh['nb'], exh['bars'] + [115]) if pid == 'C02' else None
        for pr in results[n1].printed:
            if pr['log']:
                jobs.append(('last', pr['log'], alpha, extras))
        alpha4 = alphabet(4, [0, 95, 100, 105, 110, 115]) if pid == 'C02' else None
        for nm in tie_names:
            for pr in results[nm].printed:
                if pr['log']:
                    jobs.append(('last', pr['log'], alpha4, extras))
        n_model_states = len(jobs)
        logset = set()
        for nm in sim_names:
            for pr in results[nm].printed:
                logset.add(tuple(json.dumps(c, sort_keys=True) for c in pr['log']))
        maximal = sorted(l for l in logset if not any(len(o) > len(l) and o[:len(l)] == l for o in logset))
        for l in maximal:
            jobs.append(('full', [json.loads(c) for c in l], alpha4 if len(jobs) % 3 == 0 else None, extras))
        n_sim = len(maximal)
        nscripts = {'C02': 180, 'C03': 500, 'C08': 200}[pid] * (1 if quick else 10)
        for i in range(nscripts):
            nb_ = rng.choice([1, 2, 2, 3, 3, 4])
            if i % 3 == 0 and nb_ >= 2:
                calls = gen_tie_competition(rng, nb_)
            else:
                calls = gen_competition(rng, nb_, wild=0.15 if pid == 'C02' else 0.03)
            jobs.append(('full', calls,
                         alphabet(nb_, [0, 95, 100, 105, 110, 115, 120, 125]) if pid == 'C02' and i % 4 == 0 else None,
                         extras or i % 5 == 0))
        for calls in repo_scenarios():
            jobs.append(('full', calls, None, True))
        # the constructed tie starts themselves, step by step, with the whole alphabet probed after every step (the models
        # sample their witnesses; the state in which the tie has just been declared must not depend on the sample)
        for t in TIE_STARTS:
            st = script(t)
            nath = sum(1 for c in st if c['op'] == 'add')
            jobs.append(('full', st, alphabet(nath, [95, 100, 105, 110]) if pid == 'C02' else None, True))
        # the recorded findings are reproduced on the real code in every run (canonical histories)
        for t in KNOWN_FINDING_HISTORIES[pid]:
            jobs.append(('full', expand(t), alphabet(3, [95, 100, 105, 110]) if pid == 'C02' else None, True))
        traces = replay_all(jobs)
        # the repository's own test-suite, run under the recording plugin: every public call any test makes on
        # any HighJumpCompetition (23-athlete pole vault, 15-athlete Olympic final, jump-off replays) is a trace
        suite = suite_traces(sc)
        for t in suite:
            jobs.append(('full', [s_['c'] for s_ in t['steps']], None, True))
            traces.append({'steps': t['steps'], 'lite': len(t['steps']) > 60})
        rep.setcov('repository_suite_traces', dict(competitions=len(suite), steps=sum(len(t['steps']) for t in suite),
                                                    largest_field=max([len(t['steps'][-1]['post']['j']) for t in suite] or [0]),
                                                    tests=sorted({t['test'].split('::')[-1] for t in suite})))
        rep.count('evaluations', sum(len(t['steps']) + sum(len(s.get('pr', [])) for s in t['steps']) for t in traces))

        # ---------------------------------------------------------------- (c) trace validation by TLC
        reports = validate_traces(specdir, sc, traces, rep)
        if pid == 'C08':
            order_independence(rep, rng, quick, specdir, sc)

        # vacuity guards on what was actually observed
        seen_states, refusals = {}, 0
        for t in traces:
            for s in t['steps']:
                seen_states[s['post']['state']] = seen_states.get(s['post']['state'], 0) + 1
                refusals += sum(1 for p in s.get('pr', []) if p['out'] != 'ok') + (s['out'] != 'ok')
        rep.setcov('observed_state_counts', seen_states)
        rep.setcov('refusals_observed', refusals)
        for need in ('started', 'jumpoff', 'won', 'finished', 'drawn'):
            if not seen_states.get(need):
                raise MachineryError('vacuity guard: no observed step in state %r' % need)
        if pid == 'C02' and refusals < 100:
            raise MachineryError('vacuity guard: too few refusals probed')
        rep.setcov('behaviours', dict(model_state_witnesses=n_model_states, tlc_simulated=n_sim, scripted=nscripts))
        for t, job in list(zip(traces, jobs))[:1] + list(zip(traces, jobs))[-3:]:
            rep.sample({'calls': ' '.join(fmt_call(c) for c in job[1]),
                        'final_state': t['steps'][-1]['post']['state'],
                        'last_outcome': t['steps'][-1]['out']})
        distinct = set()
        for t in traces:
            for s in t['steps']:
                distinct.add(json.dumps(hj.obs(s['post']), sort_keys=True))
        rep.setcov('distinct_nontrivial', len(distinct))
        rep.setcov('rule', 'distinct = distinct observed (state, heights, cards, bests, places) projections of the real object')

        # ---------------------------------------------------------------- (d) verdicts
        kf1_from, kf2_at = {}, set()
        for pr in reports:
            if pr['kind'] == 'kf':
                if 'KF-HJ1' in pr['clauses']:
                    kf1_from[pr['trace']] = min(kf1_from.get(pr['trace'], 10 ** 9), pr['l'])
                if 'KF-HJ2' in pr['clauses']:
                    kf2_at.add((pr['trace'], pr['l']))
        for pr in reports:
            if pr['kind'] == 'kf':
                continue
            t = traces[pr['trace']]
            job = jobs[pr['trace']]
            step = t['steps'][pr['l'] - 1]
            prefix = job[1][:pr['l']] if job[0] == 'full' else job[1]
            probe = step['pr'][pr['probe'] - 1] if pr['probe'] else None
            the_call = probe['c'] if probe else step['c']
            the_out = probe['out'] if probe else step['out']
            pre_state = step['post']['state'] if probe else (
                t['steps'][pr['l'] - 2]['post']['state'] if pr['l'] > 1 else t.get('pre', hj.EMPTY)['state'])
            tainted = kf1_from.get(pr['trace'], 10 ** 9) <= pr['l']
            if pr['kind'] == 'drift':
                rep.add_drift('%s after %s' % (sorted(pr['clauses']), ' '.join(fmt_call(c) for c in prefix)))
                continue
            for cl in pr['clauses']:
                if cl not in want:
                    continue
                if tainted:
                    sig = 'KF-HJ1'
                elif cl == 'card_round_trip_differs' and (pr['trace'], pr['l']) in kf2_at:
                    sig = 'KF-HJ2'
                else:
                    sig = '%s:%s:%s' % (cl, the_call['op'] if the_call['op'] in ('add', 'bar') else 'trial', pre_state)
                rep.add_violation(sig, '%s: after [%s] the call %s -> %s' % (
                    cl, ' '.join(fmt_call(c) for c in prefix), fmt_call(the_call), the_out),
                    {'calls': prefix, 'probe': the_call if probe else None, 'clause': cl})
    rep.assumptions += [
        'TLC 1.8 and CPython are trusted; HighJump.tla rule level (RuleAllows, Countback, Active) is the oracle',
        'lenient regions (DESIGN 5/C02): no athlete has a clearance; unknown bib; jump-off round left incomplete',
        'bounds: exhaustive model %s plus constructed jump-off models; simulation and scripts up to 4 athletes, '
        '4 regular + 3 jump-off heights' % (rep.cov.get('exhaustive_model'),)]
    return rep.finish()


ROUND_STARTS = [
    '+A +B |100',
    '+A +B +C |100',
    '+A +B |100 Ao Bxo |105',
    '+A +B +C |100 Ao Bo Cxo |105',
    '+A +B |100 Ao Bo |105 Axxx Bxxx |105',                 # jump-off round (2 tied)
    '+A +B +C |100 Ao Bo Co |105 Axxx Bxxx Cxxx |100',      # jump-off round (3 tied), lowered bar
    '+A +B +C |100 Ao Bo Cxo |105 Axxx Bxxx Cxxx |110',     # jump-off round, third athlete not tied
    '+A +B |100 Ao Br |105',                                # leader alone ('won')
]


def expand(text):
    """like script() but 'Axxo' expands to three calls."""
    calls = []
    for tok in text.split():
        if tok[0] in '+|':
            calls += script(tok)
        else:
            calls += [E(m, tok[0]) for m in tok[1:]]
    return calls


def interleavings(plans, rng, limit):
    """All (or `limit` random) interleavings of the athletes' own sequences."""
    items = [(b, list(p)) for b, p in sorted(plans.items()) if p]
    total = 1
    from math import factorial
    n = sum(len(p) for _, p in items)
    total = factorial(n)
    for _, p in items:
        total //= factorial(len(p))
    out = []
    if total <= limit:
        def rec(rem, acc):
            if all(not p for _, p in rem):
                out.append(list(acc))
                return
            for i, (b, p) in enumerate(rem):
                if p:
                    rem2 = rem[:i] + [(b, p[1:])] + rem[i + 1:]
                    acc.append(E(p[0], b))
                    rec(rem2, acc)
                    acc.pop()
        rec(items, [])
    else:
        seen = set()
        while len(out) < limit:
            order = [b for b, p in items for _ in p]
            rng.shuffle(order)
            key = ''.join(order)
            if key in seen:
                continue
            seen.add(key)
            its = {b: iter(p) for b, p in items}
            out.append([E(next(its[b]), b) for b in order])
    return out


def _round_job(job):
    prefix, runs = job
    HJ, RV = hj.lib()
    c0 = HJ()
    for call in prefix:
        hj.apply(c0, call, RV)
    pre = hj.snapshot(c0)
    recs = []
    import copy
    for calls in runs:
        c = copy.deepcopy(c0)
        outs = [hj.apply(c, call, RV) for call in calls]
        recs.append({'calls': calls, 'outs': outs, 'post': hj.snapshot(c)})
    return {'pre': pre, 'runs': recs}


def order_independence(rep, rng, quick, specdir, sc):
    # (a) model: every interleaving of every plan assignment from the constructed round starts
    menu = ['o', 'xo', 'xxo', 'xxx', 'x-', '-', 'r', 'xr', 'x', ''] if quick else \
        ['o', 'xo', 'xxo', 'xxx', 'x-', 'xx-', '-', 'r', 'xr', 'xxr', 'x', 'xx', '']
    with open(os.path.join(specdir, 'MC_round.tla'), 'w') as f:
        f.write('---- MODULE MC_round ----\nEXTENDS MC_HJRound\nStartLogsDef == {%s}\nPlanMenuDef == {%s}\n====\n' % (
            ',\n '.join(common.tla_val(expand(t)) for t in ROUND_STARTS),
            ', '.join(common.tla_val(list(m)) for m in menu)))
    with open(os.path.join(specdir, 'MC_round.cfg'), 'w') as f:
        f.write('SPECIFICATION Spec\nCONSTANTS\n StartLogs <- StartLogsDef\n PlanMenu <- PlanMenuDef\n'
                'INVARIANT OrderIndependent\nVIEW View\nCHECK_DEADLOCK FALSE\n')
    r = common.run_tlc(specdir, 'MC_round', 'MC_round.cfg', timeout=TLC_TIMEOUT, heap='8g')
    if r.violated:
        raise MachineryError('the model itself is order dependent (MC_round): specification must be corrected\n' + r.out[-3000:])
    rep.absorb_tlc(r)
    rep.setcov('round_model', dict(starts=len(ROUND_STARTS), menu=menu, distinct_states=r.distinct, transitions=r.generated))
    # (b) the real object: all interleavings for small plans, random ones for big plans
    jobs = []
    nscen = 150 if quick else 1200
    full_menu = ['o', 'xo', 'xxo', 'xxx', 'x-', 'xx-', '-', 'r', 'xr', 'xxr', 'x', 'xx', '', 'ox', 'xxxx']
    for i in range(nscen):
        if i < len(ROUND_STARTS) * 4:
            prefix = expand(ROUND_STARTS[i % len(ROUND_STARTS)])
        else:
            nb_ = rng.choice([2, 3, 3, 4])
            calls = gen_tie_competition(rng, nb_) if i % 2 else gen_competition(rng, nb_)
            bars = [k for k, c in enumerate(calls) if c['op'] == 'bar']
            prefix = calls[:rng.choice(bars) + 1]
        bibs = sorted({c['b'] for c in prefix if c['op'] == 'add'})
        plans = {b: rng.choice(full_menu if i % 3 else ['o', 'x', 'r', '-', 'x', 'o']) for b in bibs}
        runs = interleavings(plans, rng, 60 if quick else 200)
        if len(runs) > 1:
            jobs.append((prefix, runs))
    with Pool(common.NCPU) as pool:
        recs = pool.map(_round_job, jobs, chunksize=4)
    nruns = sum(len(x['runs']) for x in recs)
    rep.count('evaluations', sum(len(r_['calls']) for x in recs for r_ in x['runs']))
    rep.setcov('round_scenarios', dict(scenarios=len(recs), interleavings_executed=nruns))
    shards = common.shard(list(range(len(recs))), common.NCPU)
    envs = []
    for k, idx in enumerate(shards):
        pth = sc.file('round_%d.ndjson' % k)
        common.write_ndjson(pth, (recs[q] for q in idx))
        envs.append({'TRACE_FILE': pth})
    results = common.run_tlc_shards(specdir, 'Trace_HJRound', 'Trace_HJRound.cfg', envs, workers_each=1, timeout=TLC_TIMEOUT)
    for idx, r in zip(shards, results):
        if r.distinct != len(idx):
            raise MachineryError('round trace shard not fully consumed')
        rep.absorb_tlc(r, traces=len(idx))
        for pr in r.printed:
            q = idx[pr['tid'] - 1]
            prefix, runs = jobs[q]
            if pr['kind'] == 'drift':
                rep.add_drift('%s round after %s' % (pr['clauses'], ' '.join(fmt_call(c) for c in prefix)))
                continue
            for cl in pr['clauses']:
                rep.add_violation('%s:%s' % (cl, recs[q]['pre']['state']),
                                  '%s: after [%s] interleavings of %s disagree' % (
                                      cl, ' '.join(fmt_call(c) for c in prefix), ' '.join(fmt_call(c) for c in runs[0])),
                                  {'calls': prefix, 'round': [r_ for r_ in runs[:50]], 'clause': cl})
    if recs:
        rep.sample({'round_prefix': ' '.join(fmt_call(c) for c in jobs[0][0]),
                    'interleavings': [' '.join(fmt_call(c) for c in r_) for r_ in jobs[0][1][:3]]})


def suite_traces(sc):
    """Run tests/test_highjump.py of the working tree under harness/pytest_trace.py and return the recorded
    competitions.  A suite that cannot be run or recorded is a machinery failure only if the unchanged suite
    could be (the plugin never alters what the tests see)."""
    import subprocess, sys
    out = sc.file('suite_trace.ndjson')
    env = dict(os.environ, VERIF_PYTEST_TRACE=out, PYTHONPATH=common.VERIF + os.pathsep + common.REPO, ATHLIB_VERIF='1',
               PYTHONDONTWRITEBYTECODE='1')
    p = subprocess.run([sys.executable, '-m', 'pytest', '-q', '-x', '-p', 'no:cacheprovider', '-p', 'harness.pytest_trace',
                        'tests/test_highjump.py'], cwd=common.REPO, env=env, stdout=subprocess.PIPE, stderr=subprocess.STDOUT,
                       timeout=900)
    if not os.path.exists(out):
        raise MachineryError('the recording plugin produced no trace file:\n' + p.stdout.decode('utf8', 'replace')[-2000:])
    res = []
    with open(out) as f:
        for line in f:
            d = json.loads(line)
            if d.get('kind') != 'hj':
                continue
            if d.get('recorder_errors'):
                raise MachineryError('recorder error in %s: %s' % (d['test'], d['recorder_errors'][:2]))
            res.append(d)
    if not res:
        raise MachineryError('vacuity guard: the test-suite run recorded no high-jump competition')
    return res


def fmt_call(c):
    if c['op'] == 'add':
        return '+%s' % c['b']
    if c['op'] == 'addq':
        return '+%s!' % c['b']
    if c['op'] == 'bar':
        return '|%d' % c['h']
    return '%s%s' % (c['b'], c['op'])


def repo_scenarios():
    """tests/test_highjump.py matrices replayed as call lists (happy-path-first traces)."""
    out = []
    try:
        import importlib.util
        p = os.path.join(common.REPO, 'tests', 'test_highjump.py')
        spec = importlib.util.spec_from_file_location('_t_hj', p)
        m = importlib.util.module_from_spec(spec)
        common.use_repo()
        spec.loader.exec_module(m)
    except Exception:
        return out
    from decimal import Decimal
    for name in dir(m):
        mat = getattr(m, name)
        if not (isinstance(mat, list) and mat and isinstance(mat[0], list) and 'bib' in mat[0]):
            continue
        hdr = mat[0]
        rows = [dict(zip(hdr, r)) for r in mat[1:]]
        rows = [r for r in rows if str(r.get('order', 1)).upper() not in ('DQ', 'DNS')][:4]
        rows.sort(key=lambda r: r.get('order', 0))
        hcols = [(i, h) for i, h in enumerate(hdr) if _isnum(h)]
        names = {str(r['bib']): BIBS[k] for k, r in enumerate(rows)}
        calls = [E('add', names[str(r['bib'])]) for r in rows]
        for i, h in hcols:
            calls.append(E('bar', '', int(Decimal(h) * 100)))
            for a in range(3):
                for r in mat[1:]:
                    if str(r[hdr.index('bib')]) not in names:
                        continue
                    cell = r[i] if i < len(r) else ''
                    if isinstance(cell, str) and len(cell) > a and cell[a] in 'oxr':
                        calls.append(E(cell[a], names[str(r[hdr.index('bib')])]))
        out.append(calls)
    return out


def _isnum(x):
    try:
        float(x)
        return isinstance(x, str)
    except (TypeError, ValueError):
        return False


def replay(rec):
    """Re-execute a recorded violation on the real code and print what happens."""
    HJ, RV = hj.lib()
    c = HJ()
    r = rec['replay']
    print('property %s, clause %s' % (rec['property'], r.get('clause')))
    if r.get('round'):
        res = _round_job((r['calls'], r['round']))
        for rr in res['runs']:
            print('  %-40s -> %s %s' % (' '.join(fmt_call(c) for c in rr['calls']), ','.join(rr['outs']), json.dumps(hj.obs(rr['post']), sort_keys=True)))
        return 0
    for call in r['calls']:
        o = hj.apply(c, call, RV)
        print('  %-6s -> %-5s state=%s' % (fmt_call(call), o, c.state))
    if r.get('probe'):
        before = hj.snapshot(c)
        o = hj.apply(c, r['probe'], RV)
        print('  probe %-6s -> %-5s state=%s changed=%s' % (fmt_call(r['probe']), o, c.state, hj.snapshot(c) != before))
    s = hj.snapshot(c)
    print('  heights', s['heights'])
    for b, v in sorted(s['j'].items()):
        print('  %s card=%s best=%s place=%s' % (b, '|'.join(''.join(x) for x in v['card']), v['best'], v['pub'] or "''"))
    return 0
