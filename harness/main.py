"""check <ID> [--tier quick|thorough] [--replay PATH] [--selftest]"""
import sys, os, argparse, importlib, traceback, json
from . import common


def main(argv=None):
    ap = argparse.ArgumentParser(prog='check')
    ap.add_argument('pid')
    ap.add_argument('--tier', default=os.environ.get('VERIF_TIER') or 'quick', choices=['quick', 'thorough'])
    ap.add_argument('--replay')
    ap.add_argument('--selftest', action='store_true')
    a = ap.parse_args(argv)
    pid = a.pid.upper()
    try:
        mod = importlib.import_module('harness.%s' % pid.lower())
    except ImportError as e:
        sys.stderr.write('no check for %s: %s\n' % (pid, e))
        return 2
    try:
        if a.replay:
            with open(a.replay) as f:
                rec = json.load(f)
            return mod.replay(rec)
        if a.selftest:
            return mod.selftest()
        return mod.run(a.tier)
    except common.MachineryError as e:
        sys.stderr.write('MACHINERY-FAILURE property=%s %s\n' % (pid, e))
        return 2
    except Exception:
        traceback.print_exc()
        sys.stderr.write('MACHINERY-FAILURE property=%s unexpected harness exception\n' % pid)
        return 2


if __name__ == '__main__':
    sys.exit(main())
