"""C16 - concurrent calls give the same answers as single-threaded ones.

(a) TLC explores the PlusCal sub-models (LazyPublish, SharedScratch, CacheEvict): the variants
    that transcribe the code as it is now satisfy Linearizable / NoError for 3 threads and every
    interleaving; the as-it-was variants are refuted in the same run (falsifiability guard).
(b) the real functions are executed under the deterministic line-level scheduler (sched.py):
    for every scenario (pair / triple of calls on the same shared state, cold and warm, caches
    at their limit) every schedule with <= 1 (quick) / 2 (thorough) forced pre-emptions at
    visible lines, each execution in its own forked process so "first call" is really first.
(c) Trace_Lazy.tla validates each recorded execution: every thread's result equals the result
    of the same call made alone (Monitor); observed shared snapshots satisfy the model's
    state invariant `a published table is complete` (drift).
"""
import os, sys, json, random, itertools
from . import common, sched
from .common import Report, Scratch, MachineryError
from .c19 import isolated


# ----------------------------------------------------------------------------- scenarios

def _call(spec):
    import athlib
    name, args, kw = spec
    if name == 'seq':
        # one thread's little history: earlier calls (which may be refused) are made for what they leave behind in the
        # thread and in the shared objects, the last call's answer is the thread's result
        for sub in args[:-1]:
            try:
                _call(sub)
            except Exception:
                pass
        return _call(args[-1])
    if name == 'schema_valid':
        import jsonschema
        from athlib import utils
        return utils.schema_valid(args[0], validator=getattr(jsonschema, args[1]), expect_failure=kw.get('ef', False))
    if name == 'valid_against_schema':
        from athlib import utils
        return utils.valid_against_schema(args[0], args[1], expect_failure=kw.get('ef', False))
    return getattr(athlib, name)(*args, **kw)


def C(name, *args, **kw):
    return (name, args, kw)


def scenarios(quick):
    S = []

    def add(group, calls_list, variants=('cold', 'warm'), prefill=None):
        for calls in calls_list:
            for v in variants:
                S.append({'group': group, 'calls': list(calls), 'variant': v, 'prefill': prefill})
    a1, a2, a3 = C('athlon_score', 'M', '100', 10.5), C('athlon_score', 'F', 'WT', 12.0), C('athlon_score', 'M', 'LJ', 7.1, age=50)
    p1, p2 = C('athlon_performance_needed', 'M', '100', 1000), C('athlon_performance_needed', 'F', 'HJ', 800)
    a4 = C('athlon_score', 'F', 'HJ', 1.5, age=60)
    # same function, same row, different argument (a memo of "the last answer" keyed too coarsely shows only then)
    p1b, a3b = C('athlon_performance_needed', 'M', '100', 700), C('athlon_score', 'M', 'LJ', 6.2, age=65)
    add('athlon', [(a1, a2), (a1, a1), (a1, p2), (p1, p2), (a3, a2), (p1, a1), (a3, a4), (a4, a3), (a3, a3)] if not quick else
        [(a1, a2), (a1, p2), (p1, p2), (a3, a2), (a3, a4)])
    add('athlon', [(p1, p1b), (a3, a3b)], variants=('warm',) if quick else ('cold', 'warm'))
    # the one row with an option of its own (ESAA boys' 800 m): a call with the option against calls without it on the same row
    e1, e2, e3 = C('athlon_score', 'M', '800', 120.0, esaa=True), C('athlon_score', 'M', '800', 130.0), C('athlon_performance_needed', 'M', '800', 700)
    add('athlon', [(e1, e2), (e1, e3)], variants=('warm',) if quick else ('cold', 'warm'))
    if not quick:
        add('athlon', [(e1, e1), (e2, e1)])
    # scorers without module-level mutable state today: different-argument pairs, so that a memo added later is seen
    t1, t2 = C('tyrving_score', 'M', 15, '100', '12.10'), C('tyrving_score', 'F', 14, 'HJ', 1.5)
    q1, q2 = C('qkids_score', 'QKSEC', '100', '13.5'), C('qkids_score', 'QKWL', 'LJ', 3.2)
    b1, b2 = C('bulgarian_score', 'U16', 'M', '100', '12.5'), C('bulgarian_score', 'U16', 'F', 'LJ', 4.5)
    # ... and pairs that share one table row but differ in the mark (hand-timed against electronic for Tyrving): per-call
    # state kept on an object that a later change shares between calls is then seen (seed C11-g / S11: calculators from
    # an lru_cache, the timing kind stored on the calculator)
    t3, t4 = C('tyrving_score', 'F', 15, '100', '13.0'), C('tyrving_score', 'F', 15, '100', '12.50')
    q3, b3 = C('qkids_score', 'QKSEC', '100', '15.25'), C('bulgarian_score', 'U16', 'M', '100', '11.9')
    add('stateless', [(t1, t2), (q1, q2), (b1, b2), (t3, t4), (q1, q3), (b1, b3)] if quick else
        [(t1, t2), (q1, q2), (b1, b2), (t2, t1), (t1, q1), (b1, t2), (t3, t4), (t4, t3), (q1, q3), (b1, b3)], variants=('warm',))
    h1, h2 = C('hungarian_score', 'M', 'OUT', '100', 10.5), C('hungarian_score', 'F', 'IND', 'HJ', 1.8)
    h1b = C('hungarian_score', 'M', 'OUT', '100', 11.3)
    add('hungarian', [(h1, h2), (h1, h1), (h2, h1)])
    add('hungarian', [(h1, h1b)], variants=('warm',) if quick else ('cold', 'warm'))
    s1, s2 = C('sportshall_score', 'SLJ', '2.10'), C('sportshall_score', '800', '150')
    # the vertical jump is the one event tabulated in other units (cm): same-event pairs for it, so that per-event lazily
    # built state is raced by two first scorings of that event (seed C16-i: a non-idempotent in-place conversion)
    s3, s4 = C('sportshall_score', 'SHJ', '0.59'), C('sportshall_score', 'SHJ', '0.45')
    add('sportshall', [(s1, s2), (s1, s1), (s3, s4)] if quick else [(s1, s2), (s1, s1), (s3, s4), (s3, s3), (s2, s2), (s3, s1)])
    w1, w2 = C('wma_age_factor', 'm', 50, '100'), C('wma_age_factor', 'f', 70, 'MAR')
    w3, w4 = C('wma_age_grade', 'm', 60, '5K', '20:00'), C('wma_world_best', 'f', '10K')
    w5, w6 = C('wma_age_factor', 'm', 55, '7K'), C('wma_world_best', 'm', '7K')
    w7 = C('wma_age_factor', 'f', 45, '200', year=2015)
    w8 = C('wma_age_factor', 'm', 80, 'HJ', year=2015)
    # neighbouring rows: an untabulated distance is bracketed by the rows of tabulated events, so a call about 11 km
    # and a call about 10 km touch the same row indices (seed C16-h: the age grade's two locked steps trusted a row
    # index "already located" across the gap between them)
    w9, w10 = C('wma_age_grade', 'm', 50, '10K', '40:00'), C('wma_world_best', 'm', '11K')
    w11, w12 = C('wma_age_factor', 'm', 50, '11K'), C('wma_age_grade', 'm', 50, '11K', '45:00')
    add('wma', [(w1, w2), (w1, w1), (w1, w3), (w3, w4), (w5, w2), (w5, w6), (w6, w1), (w3, w5), (w7, w8), (w9, w10), (w9, w11), (w12, w9), (w12, w10), (w9, w12)] if not quick else
        [(w1, w2), (w1, w3), (w3, w4), (w5, w6), (w6, w1), (w7, w8), (w9, w10), (w12, w9)])
    # a thread whose earlier call was refused (rule 4, per thread): per-thread bookkeeping left stale on the exception path
    # (seed C16-j: a thread-local "already inside the lock" mark that only a normal return cleared)
    wr1 = C('seq', C('wma_age_factor', 'm', 50, 'NOSUCH'), C('wma_age_factor', 'm', 50, '100'))
    wr2 = C('seq', C('wma_world_best', 'x', '100'), C('wma_age_grade', 'f', 60, '5K', '25:00'))
    add('wma', [(wr1, w2), (wr2, w1)] if quick else [(wr1, w2), (wr2, w1), (wr1, wr2), (w2, wr1)], variants=('warm',) if quick else ('cold', 'warm'))
    ar1 = C('seq', C('athlon_score', 'W', '100', 13.5, age=50), C('athlon_score', 'F', '100', 13.5, age=50))
    add('athlon', [(ar1, a3)], variants=('warm',) if quick else ('cold', 'warm'))
    g1, g2, g3 = C('wma_athlon_age_factor', 'M', 50, '100'), C('wma_athlon_age_factor', 'F', 60, 'LJ'), C('wma_athlon_age_grade', 'M', 66, '60H', '9.9')
    g3b, g1b = C('wma_athlon_age_grade', 'M', 66, '60H', '11.2'), C('wma_athlon_age_factor', 'M', 70, '100')
    add('wma_athlon', [(g1, g2), (g1, g1), (g3, g2)])
    add('wma_athlon', [(g3, g3b), (g1, g1b)], variants=('warm',) if quick else ('cold', 'warm'))
    sv = lambda f, v='Draft4Validator', ef=False: C('schema_valid', f, v, ef=ef)
    va = lambda j, s, ef=False: C('valid_against_schema', j, s, ef=ef)
    for fill in (19, 20):
        add('cache', [(sv('json/race.json', 'Draft7Validator'), sv('json/event.json', 'Draft7Validator')),
                      (sv('json/race.json', 'Draft7Validator'), sv('json/race.json', 'Draft7Validator')),
                      (sv('json/athlete.json', 'Draft3Validator'), sv('json/event.json', 'Draft7Validator', ef=False))],
            variants=('sv%d' % fill,), prefill=('sv', fill))
        if fill == 20:
            # a call that HITS the full cache (its oldest and its newest entry) against a call that inserts a new key: the
            # hit path and the eviction of another caller (seed C16-m: `.get` on one line, recency update on the next)
            add('cache', [(sv(*PREFILL_SV[0]), sv('json/race.json', 'Draft7Validator')),
                          (sv(*PREFILL_SV[19]), sv('json/race.json', 'Draft7Validator'))],
                variants=('sv%d' % fill,), prefill=('sv', fill))
            add('cache', [(va(*PREFILL_VA[0]), va('sample-jsons/event.json', 'json/event.json')),
                          (va(*PREFILL_VA[19]), va('sample-jsons/event.json', 'json/event.json'))],
                variants=('va%d' % fill,), prefill=('va', fill))
        add('cache', [(va('sample-jsons/athlete.json', 'json/athlete.json'), va('sample-jsons/event.json', 'json/event.json')),
                      (va('sample-jsons/athlete_invalid.json', 'json/athlete.json'), va('sample-jsons/event.json', 'json/event.json'))],
            variants=('va%d' % fill,), prefill=('va', fill))
    if not quick:
        S.append({'group': 'athlon', 'calls': [a1, a2, p2], 'variant': 'cold', 'prefill': None})
        S.append({'group': 'wma', 'calls': [w1, w2, w5], 'variant': 'cold', 'prefill': None})
        S.append({'group': 'wma', 'calls': [w1, w2, w5], 'variant': 'warm', 'prefill': None})
        S.append({'group': 'hungarian', 'calls': [h1, h2, h1], 'variant': 'cold', 'prefill': None})
        S.append({'group': 'cache', 'calls': [sv('json/race.json', 'Draft7Validator'), sv('json/event.json', 'Draft7Validator'),
                                              sv('json/competition.json', 'Draft7Validator')], 'variant': 'sv20', 'prefill': ('sv', 20)})
    # after the concurrent calls have returned, the same program goes on: every call of the scenario is made once more
    # and the validation caches are asked for a key they have not seen - what the threads left behind must serve later
    # callers exactly like a single-threaded program would
    for i, s in enumerate(S):
        s['id'] = i
        s['epilogue'] = list(s['calls'])
        if s['group'] == 'cache':
            s['epilogue'] = s['epilogue'] + [sv('json/performance.json', 'Draft7Validator') if s['prefill'][0] == 'sv'
                                             else va('sample-jsons/athlete_minimal.json', 'json/athlete.json')]
    return S


PREFILL_SV = [('json/%s.json' % n, v) for v in ('Draft4Validator', 'Draft6Validator') for n in
              ('athlete', 'combined_performance', 'competition', 'performance', 'metaschema')] + \
             [('json/definitions/%s.json' % n, v) for v in ('Draft4Validator', 'Draft6Validator') for n in
              ('field_performance', 'horizontal_jump_performance', 'jump_performance', 'throw_performance',
               'track_performance', 'vertical_jump_performance')]
PREFILL_VA = [('sample-jsons/%s.json' % s, 'json/%s.json' % j) for j in ('performance', 'competition', 'race', 'combined_performance')
              for s in ('performance', 'performance_minimal', 'competition', 'competition_minimal', 'combined_performance',
                        'combined_performance_minimal', 'event_minimal')]


def _prepare(sc):
    """Bring the process into the scenario's starting state (single-threaded, untraced)."""
    os.chdir(common.REPO)
    if sc['variant'] == 'warm':
        for c in sc['calls']:
            try:
                _call(c)
            except Exception:
                pass
    if sc['prefill']:
        from athlib import utils
        kind, n = sc['prefill']
        # fill until the cache holds n entries (however the code under test keys them); if the keys run out
        # the scenario simply starts from a smaller cache
        # (the memo dicts are private: if the implementation no longer keeps them under these names, make n calls
        #  with distinct keys instead - a cache with n entries however it is built)
        def held(name):
            d = getattr(utils, name, None)
            return len(d) if isinstance(d, dict) else None
        if kind == 'sv':
            for i, (f, v) in enumerate(PREFILL_SV):
                h = held('_schema_valid_cache')
                if (h if h is not None else i) >= n:
                    break
                _call(C('schema_valid', f, v))
        else:
            for i, (j, s) in enumerate(PREFILL_VA):
                h = held('_valid_against_schema_cache')
                if (h if h is not None else i) >= n:
                    break
                _call(C('valid_against_schema', j, s))


def _norm(r):
    kind, v = r
    return '%s:%r' % (kind, v)


_SIZES = {}


def _snapshot():
    m = sys.modules
    # (observation of private module state for the model binding only: whatever is not there any more reads as 'none')
    if not _SIZES:
        try:
            _SIZES['athlon'] = len(m['athlib.athlon_score']._scoring_table)
        except Exception:
            _SIZES['athlon'] = 1
        try:
            _SIZES['hungarian'] = len({tuple(x[:3]) for x in m['athlib.hungarian_score'].FACTORS})
        except Exception:
            _SIZES['hungarian'] = 1
    out = []

    def size(mod, name):
        v = getattr(m.get(mod), name, None)
        try:
            return None if v is None else len(v)
        except Exception:
            return None
    so = size('athlib.athlon_score', '_scoring_objects')
    out.append('none' if so is None else ('full%d' % so if so >= _SIZES['athlon'] else 'partial%d' % so))
    tb = size('athlib.hungarian_score', '_table')
    out.append('none' if tb is None else ('full%d' % tb if tb >= _SIZES['hungarian'] else 'partial%d' % tb))
    db = size('athlib.sportshall_score', '_DB')
    out.append('none' if not db else ('full%d' % db if db >= 13 else 'partial%d' % db))
    return ','.join(out)


# source line (by text, never by number) -> label of the PlusCal model LazyPublish
LABELS = {
    'athlon': ('athlon_score.py', 0, [
        (r'^if _scoring_objects is None', 'test'), (r'^for o in _scoring_table', 'LOOP'),
        (r'^_scoring_objects = objects\b', 'publish'), (r'^_scoring_objects = \{\}', 'pubE'), (r'^objects\[', 'INSERT'),
        # as it was: `_scoring_objects[scoring_key(..)] = o` stores when scoring_key returns, i.e. within the step that
        # starts at scoring_key's return line (the trace spec ignores that line outside the fill loop)
        (r'^return \("%s-%s" % \(gender, event_code\)\)\.upper\(\)', 'INSERT'),
        (r'^if key not in _scoring_objects', 'look')]),
    'hungarian': ('hungarian_score.py', 1, [
        (r'^if _table is None', 'test'), (r'^for \(gender, inout, event_code, a, b, c\) in FACTORS', 'LOOP'),
        (r'^_table = table\b', 'publish'), (r'^_table = \{\}', 'pubE'), (r'^_?table\[key\] = value', 'INSERT'),
        (r'^\(a,b,c\) = tbl\[key\]', 'look')]),
    # `_DB = load_data()`: the global is bound when load_data returns, i.e. within the step that starts at `return db`
    'sportshall': ('sportshall_score.py', 2, [
        (r'^if not _DB', 'test'), (r'^for \(code, info\) in data_by_event_code\.items\(\)', 'LOOP'),
        (r'^return db\b', 'publish'), (r'^_DB = \{\}', 'pubE'), (r'^db\[code\] = e\b', 'INSERT'), (r'^event_info = _DB\.get', 'look')]),
}


def model_events(group, trace, final):
    """[thread (1-based), label, pub, n] per executed line, for Trace_LazyPublish.tla; [] when the source no
    longer matches the patterns (drift unknown, never a failure)."""
    import re, linecache
    fname, idx, pats = LABELS[group]
    path = os.path.join(common.REPO, 'athlib', fname)
    try:
        src = open(path).read()
    except OSError:
        return None
    publish_first = any(re.search(p[1:], src, re.M) for p, lab in pats if lab == 'pubE')
    needed = [p for p, lab in pats if lab in ('test', 'LOOP', 'look')]
    if not all(re.search(p[1:], src, re.M) for p in needed):
        return None

    def state(snap):
        part = snap.split(',')[idx]
        if part == 'none':
            return False, 0
        return True, int(re.sub(r'\D', '', part) or 0)
    out = []
    prev = list(state(trace[0][2])) if trace else [False, 0]
    for k, (tid, where, snap) in enumerate(trace):
        fn, _, ln = where.rpartition(':')
        label = 'other'
        if fn == fname and ln.isdigit():
            text = linecache.getline(path, int(ln)).strip()
            for p, lab in pats:
                if re.search(p, text):
                    # publish-after-fill: the loop head is the model's `build` step, the insertion is thread-local;
                    # publish-first (as it was): the insertion is the model's `fill` step, the loop head leaves the loop
                    label = {'LOOP': 'fillhead' if publish_first else 'build', 'INSERT': 'fill' if publish_first else 'other'}.get(lab, lab)
                    break
        post = trace[k + 1][2] if k + 1 < len(trace) else final
        pub, n = state(post)
        # a line that stands for no model action and leaves the observed state as it was is a pure stuttering step:
        # not logged (an unlabelled line that *does* change the shared state stays in the trace and is rejected)
        if label == 'other' and [pub, n] == prev:
            continue
        prev = [pub, n]
        out.append([tid + 1, label, pub, n])
    return {'init': list(state(trace[0][2])) if trace else [False, 0], 'events': out}


def _solo(arg):
    sc, i = arg
    _prepare(sc)
    try:
        return _norm(('ok', _call((sc['calls'] + sc['epilogue'])[i])))
    except BaseException as e:
        return _norm(('exc', type(e).__name__))


def _execute(arg, prepared=False):
    import time as _t
    t0 = _t.time()
    sc, segments = arg
    if not prepared:
        _prepare(sc)
    t1 = _t.time()
    fns = [(lambda c=c: _call(c)) for c in sc['calls']]
    # every source line inside athlib is a yield point, except for the validation caches, where the schema
    # resolver calls back into athlib thousands of times: there the AST-detected visible lines are used
    ctl = sched.Controlled(fns, os.path.join(common.REPO, 'athlib'), snapshot=_snapshot, all_lines=sc['group'] != 'cache')
    results, executed = ctl.run(segments)
    final = _snapshot()
    later = []
    for c in sc['epilogue']:
        try:
            later.append(('ok', _call(c)))
        except BaseException as e:     # noqa
            later.append(('exc', type(e).__name__))
    results = list(results) + later
    events = model_events(sc['group'], ctl.trace, final) if sc['group'] in LABELS and len(sc['calls']) == 2 else None
    snaps = sorted({s for _, _, s in ctl.trace})
    return {'results': [_norm(r) for r in results], 'executed': executed, 'snaps': snaps, 'events': events,
            'steps': [[t, w] for t, w, _ in ctl.trace], 'dur': [round(t1 - t0, 3), round(_t.time() - t1, 3)]}


def _pool_solo(arg):
    return isolated(_solo, arg)


def _pool_exec(arg):
    return isolated(_execute, arg)


def _prepared_batch(arg):
    sc, segs = arg
    _prepare(sc)
    out = []
    for seg in segs:
        ex = isolated(lambda a: _execute(a, prepared=True), (sc, seg))
        # what a schedule's execution is judged by is small; the per-line trace is only needed for the probes that size
        # the schedules (the thorough tier held 50 GB of such traces in the parent before this)
        ex.pop('steps', None)
        ex['executed'] = bytes(bytearray(min(int(t), 255) for t in ex['executed']))
        out.append(ex)
    return out


def _pool_batch(arg):
    """Several schedules of one scenario: the starting state (warm-up calls, cache prefill) is built once in a child of
    the pristine process, and every schedule runs in its own fork of that child."""
    return isolated(_prepared_batch, arg)


def tail_schedules(sc, counts, window=10):
    """Two pre-emptions, both within the last `window` visible steps of each call (where the cache is
    maintained): complete over that window."""
    out = []
    n = len(sc['calls'])
    for first in range(n):
        for other in range(n):
            if other == first:
                continue
            for k1 in range(max(0, counts[first] - window), counts[first] + 1):
                for k2 in range(max(1, counts[other] - window), counts[other] + 1):
                    out.append([(first, k1), (other, k2), (first, None), (other, None)])
    return out


def _visible_steps(steps):
    vis = []
    for k, w in enumerate(steps):
        fn, _, ln = w.rpartition(':')
        v = None
        for sub in ('', 'wma', 'uka'):
            pth = os.path.join(common.REPO, 'athlib', sub, fn)
            if os.path.exists(pth):
                v = sched.visible_lines(pth)
                break
        if v and ln.isdigit() and int(ln) in v:
            vis.append(k)
    return vis


def shared_points(steps):
    """Points just before and just after the first and the last visit of every distinct line that touches shared
    state (module globals, self attributes, aliased shared objects): where a second pre-emption can matter."""
    first, last = {}, {}
    for k in _visible_steps(steps):
        first.setdefault(steps[k], k)
        last[steps[k]] = k
    ks = set(first.values()) | set(last.values())
    return sorted(ks | {k + 1 for k in ks})


def candidate_points(steps, limit):
    """Pre-emption points for one thread: steps = its 'file:line' positions when it runs first.  All points when
    there are at most `limit`; otherwise every point on an AST-visible line (bounded) plus an even spread -
    long loops over thread-local data are thinned, the lines touching shared names are all kept."""
    n = len(steps)
    if n <= limit:
        return list(range(0, n + 1))
    keep = {0, n}
    vis = []
    for k, w in enumerate(steps):
        fn, _, ln = w.rpartition(':')
        v = None
        for sub in ('', 'wma', 'uka'):
            pth = os.path.join(common.REPO, 'athlib', sub, fn)
            if os.path.exists(pth):
                v = sched.visible_lines(pth)
                break
        if v and ln.isdigit() and int(ln) in v:
            vis.append(k)
    # first and last visit of every distinct visible line are always kept; repeated visits (loops) are thinned
    first, last = {}, {}
    for k in vis:
        first.setdefault(steps[k], k)
        last[steps[k]] = k
    keep.update(first.values())
    keep.update(last.values())
    keep.update(k + 1 for k in list(first.values()) + list(last.values()))
    if len(vis) > limit:
        vis = vis[::len(vis) // limit + 1]
    keep.update(vis)
    keep.update(k + 1 for k in vis)
    keep.update(range(0, n + 1, max(1, n // limit)))
    # straight-line code of the call path: the first and the last visit of EVERY distinct source line, whether or not the
    # AST shows a shared name on it - shared state reached through a local alias (`info = db[code]; if not info.get(..)`)
    # is invisible to the AST, and check-then-act windows are a few lines that run once (seed C16-i).  The number of
    # distinct lines of a call is small; what is thinned are the repeated visits inside loops.
    f2, l2 = {}, {}
    for k, w in enumerate(steps):
        f2.setdefault(w, k)
        l2[w] = k
    keep.update(f2.values())
    keep.update(l2.values())
    return sorted(k for k in keep if 0 <= k <= n)


def schedules_for(sc, counts, max_preempt, rng, cap, points=None, shared=None):
    """All schedules with <= max_preempt forced pre-emptions; counts[t] = steps of thread t when it runs first;
    points[t] = the candidate pre-emption points of thread t (default: every step)."""
    n = len(sc['calls'])
    points = points or {t: list(range(0, counts[t] + 1)) for t in range(n)}
    out = []
    for order in itertools.permutations(range(n)):
        out.append([(t, None) for t in order])
    if max_preempt >= 1:
        for first in range(n):
            for other in range(n):
                if other == first:
                    continue
                for k in points[first]:
                    out.append([(first, k), (other, None), (first, None)])
    if max_preempt >= 2:
        two = []
        for first in range(n):
            for other in range(n):
                if other == first:
                    continue
                p1 = shared[first] if shared else points[first][::max(1, len(points[first]) // 60)]
                p2 = shared[other] if shared else points[other][::max(1, len(points[other]) // 60)]
                for k1 in p1:
                    for k2 in [k for k in p2 if k >= 1]:
                        two.append([(first, k1), (other, k2), (first, None), (other, None)])
                        if n == 3:
                            third = 3 - first - other
                            two.append([(first, k1), (other, k2), (third, None), (first, None), (other, None)])
        if len(two) > cap:
            two = rng.sample(two, cap)
        out += two
    return out


def run(tier):
    rep = Report('C16', tier, 'model_checking')
    quick = tier == 'quick'
    rng = random.Random(common.seed() * 17 + 16)
    common.use_repo()
    import athlib  # noqa: the parent only imports; children are forked from this pristine state
    from multiprocessing import get_context
    ctx = get_context('fork')
    import time as _t
    t0 = _t.time()
    phases = {}
    with Scratch('C16') as sc_:
        specdir = common.prepare_spec_dir(sc_)
        # (a) models
        for mod, inv in (('LazyPublish', 'Linearizable'), ('SharedScratch', 'Linearizable'), ('CacheEvict', 'NoError')):
            r = common.run_tlc(specdir, mod, mod + '_fixed.cfg', workers=4, heap='2g')
            if r.violated:
                raise MachineryError('%s (as the code is now) violates %s: specification must be corrected' % (mod, r.violated))
            rep.absorb_tlc(r)
            r2 = common.run_tlc(specdir, mod, mod + '_aswas.cfg', workers=4, heap='2g')
            if r2.violated != inv:
                raise MachineryError('falsifiability guard: %s as-it-was variant is not refuted (%s)' % (mod, r2.violated))
            rep.cov.setdefault('models', {})[mod] = dict(states=r.distinct, transitions=r.generated, as_was_variant_refuted=True)
        # ... and for ANY number of threads and rows: the TLA+ proof system checks the inductive-invariant proof of
        # Spec => [](AtomicTable /\ Linearizable) for the build-then-publish model (Proof_LazyPublish.tla)
        nobl = common.run_tlapm(specdir, 'Proof_LazyPublish')
        nobl2 = common.run_tlapm(specdir, 'Proof_SharedScratch')
        nobl3 = common.run_tlapm(specdir, 'Proof_CacheEvict')
        rep.setcov('machine_checked_proofs', [
            dict(tool='tlapm', module='Proof_LazyPublish', theorem='Safe', obligations_proved=nobl,
                 meaning='LazyPublish with PublishFirst = FALSE: AtomicTable and Linearizable hold in every reachable state for any number '
                         'of threads and any table size (inductive invariant IndInv)'),
            dict(tool='tlapm', module='Proof_SharedScratch', theorem='Safe', obligations_proved=nobl2,
                 meaning='SharedScratch with Locked = TRUE: Linearizable (every call returns the factor of its own row and age) in every '
                         'reachable state for any number of threads, rows and ages (mutual exclusion + scratch ownership invariant)'),
            dict(tool='tlapm', module='Proof_CacheEvict', theorem='Safe', obligations_proved=nobl3,
                 meaning='CacheEvict with Locked = TRUE: NoError (the reversed-dict iterator never sees a changed size and is never '
                         'exhausted) and the cache within its limit in every reachable state, for any number of threads, any limit >= 1 '
                         'and any initial contents within the limit (mutual exclusion + at most one pop per call)')])
        phases['models'] = round(_t.time() - t0, 1)
        # (b) real code under the scheduler
        S = scenarios(quick)
        with ctx.Pool(common.NCPU) as pool:
            solos = pool.map(_pool_solo, [(s, i) for s in S for i in range(len(s['calls']) + len(s['epilogue']))], chunksize=2)
            it = iter(solos)
            for s in S:
                s['expected'] = [next(it) for _ in s['calls'] + s['epilogue']]
            # learn step counts: each thread first (non-preemptive)
            probes = pool.map(_pool_exec, [(s, [(t, None) for t in ([f] + [x for x in range(len(s['calls'])) if x != f])])
                                           for s in S for f in range(len(s['calls']))], chunksize=2)
            it = iter(probes)
            jobs = []
            for s in S:
                counts, points, shared = {}, {}, {}
                for f in range(len(s['calls'])):
                    ex = next(it)
                    counts[f] = sum(1 for t in ex['executed'] if t == f)
                    lim = (45 if s['variant'] == 'cold' else 12) if quick else 600
                    # own[k] = the line thread f is about to run after k steps (own[0] is its start step)
                    own = [w for t, w in ex['steps'] if t == f]
                    points[f] = candidate_points(own, lim)
                    shared[f] = shared_points(own)
                s['counts'] = counts
                # two pre-emptions (thorough): the product of the shared-state points of the two calls, complete for
                # first calls (lazy initialisation is where check-then-act windows are), sampled when warmed up
                cap2 = (6000 if s['variant'] == 'cold' else 1200) if len(s['calls']) == 2 else 1200
                for seg in schedules_for(s, counts, 1 if quick else 2, rng, cap2, points, shared if len(s['calls']) == 2 else None):
                    jobs.append((s, seg))
                # check-then-act on first use (a lock, a table made lazily): the first caller is stopped right after its
                # first looks at shared state, the second one anywhere it touches shared state, then the first completes -
                # two forced pre-emptions, complete over (first four shared-state points) x (all shared-state points)
                if quick and s['variant'] == 'cold' and len(s['calls']) == 2:
                    for a, b in ((0, 1), (1, 0)):
                        for k1 in shared[a][:4]:
                            for k2 in shared[b]:
                                if k2 >= 1:
                                    jobs.append((s, [(a, k1), (b, k2), (a, None), (b, None)]))
                # the bounded-cache race needs two switches (iterator made, other thread pops, next()):
                # complete over the last ten visible lines of each call
                if s['group'] == 'cache' and len(s['calls']) == 2:
                    for seg in tail_schedules(s, counts):
                        jobs.append((s, seg))
            phases['probes'] = round(_t.time() - t0, 1)
            batches, bidx = [], []
            k = 0
            while k < len(jobs):
                e = k
                while e < len(jobs) and e - k < 24 and jobs[e][0] is jobs[k][0]:
                    e += 1
                batches.append((jobs[k][0], [seg for _, seg in jobs[k:e]]))
                k = e
            execs = [x for part in pool.map(_pool_batch, batches, chunksize=1) for x in part]
        phases['executions'] = round(_t.time() - t0, 1)
        if os.environ.get('C16_MEMDEBUG'):
            import pickle
            tot = {}
            for ex in execs:
                for k_, v_ in ex.items():
                    tot[k_] = tot.get(k_, 0) + len(pickle.dumps(v_))
            sys.stderr.write('MEMDEBUG %d executions, bytes by field %s\n' % (len(execs), tot))
        cpu = {}
        for (s, seg), ex in zip(jobs, execs):
            c = cpu.setdefault('%s/%s' % (s['group'], s['variant']), [0, 0.0, 0.0])
            c[0] += 1
            c[1] += ex['dur'][0]
            c[2] += ex['dur'][1]
        rep.setcov('execution_seconds_by_group', {k: [v[0], round(v[1], 1), round(v[2], 1)] for k, v in sorted(cpu.items())})
        rep.count('evaluations', len(jobs) + len(probes) + len(solos))
        # (c) TLC validates the recorded executions
        recs = []
        for (s, seg), ex in zip(jobs, execs):
            recs.append({'sid': s['id'], 'group': s['group'], 'results': ex['results'], 'expected': s['expected'],
                         'snaps': ex['snaps'], 'switches': sum(1 for a, b in zip(ex['executed'], ex['executed'][1:]) if a != b)})
        shards = common.shard(list(range(len(recs))), min(common.NCPU, 8))
        envs = []
        for k, idx in enumerate(shards):
            p = sc_.file('lz_%d.ndjson' % k)
            common.write_ndjson(p, (recs[q] for q in idx))
            envs.append({'TRACE_FILE': p})
        outs = common.run_tlc_shards(specdir, 'Trace_Lazy', 'Trace_Lazy.cfg', envs, workers_each=2)
        distinct = set()
        for idx, r in zip(shards, outs):
            if r.distinct != len(idx):
                raise MachineryError('execution shard not fully consumed (%d/%d)' % (r.distinct, len(idx)))
            rep.absorb_tlc(r, traces=len(idx))
            for pr in r.printed:
                q = idx[pr['tid'] - 1]
                s, seg = jobs[q]
                ex = execs[q]
                desc = ' || '.join('%s%r' % (c[0], c[1]) for c in s['calls'])
                if pr['kind'] == 'drift':
                    rep.add_drift('%s in %s [%s]' % (pr['clauses'], desc, s['variant']))
                    continue
                allc = s['calls'] + s['epilogue']
                bad = [i for i in range(len(allc)) if ex['results'][i] != s['expected'][i]]
                for i in bad:
                    sig = '%s:%s:%s' % (s['group'], allc[i][0], 'error' if ex['results'][i].startswith('exc') else 'wrong_value')
                    who = 'thread %d' % i if i < len(s['calls']) else 'the later call %s%r' % (allc[i][0], allc[i][1])
                    rep.add_violation(sig, '%s [%s]: under schedule %s %s got %s, single-threaded %s' % (
                        desc, s['variant'], seg, who, ex['results'][i], s['expected'][i]),
                        {'scenario': {k: s[k] for k in ('group', 'calls', 'variant', 'prefill', 'epilogue')}, 'segments': seg})
        # binding self-test (DESIGN section 7): executions TLC accepted, with one thread's recorded result altered, must
        # be rejected
        flagged_q = {idx[pr['tid'] - 1] for idx, r in zip(shards, outs) for pr in r.printed}
        import copy as _copy
        badrecs = []
        for q, rc_ in enumerate(recs):
            if q in flagged_q or not rc_['results']:
                continue
            c = _copy.deepcopy(rc_)
            c['results'][0] = 'ok:corrupted'
            badrecs.append(c)
            if len(badrecs) >= 6:
                break
        if badrecs and not os.environ.get('VERIF_NO_SELFTEST'):
            p = sc_.file('lz_selftest.ndjson')
            common.write_ndjson(p, badrecs)
            r = common.run_tlc_shards(specdir, 'Trace_Lazy', 'Trace_Lazy.cfg', [{'TRACE_FILE': p}], workers_each=1)[0]
            rejected = len({pr['tid'] for pr in r.printed if pr.get('kind') != 'drift'})
            common.SELFTESTS.append({'trace_spec': 'Trace_Lazy', 'corrupted': len(badrecs), 'rejected': rejected})
            if rejected < len(badrecs):
                raise MachineryError('binding self-test: Trace_Lazy accepted %d of %d corrupted executions' % (len(badrecs) - rejected, len(badrecs)))
        phases['record_validation'] = round(_t.time() - t0, 1)
        # code -> spec: the executions of the lazily-built-table code as behaviours of the PlusCal model
        for group in sorted(LABELS):
            tr = [(q, ex['events']) for q, ((s, seg), ex) in enumerate(zip(jobs, execs))
                  if s['group'] == group and ex['events'] and not any(c[0] == 'seq' for c in s['calls'])]   # (the model is one call per thread)
            if not tr:
                rep.notes.append('%s: no execution could be mapped to model labels (source patterns not found)' % group)
                continue
            nrows = max(e[3] for _, t in tr for e in t['events'])
            # the as-it-was shape (the global is bound to an empty dict first) is a variant of the same model
            publish_first = any(e[1] in ('pubE', 'fill', 'fillhead') for _, t in tr for e in t['events'])
            with open(os.path.join(specdir, 'Trace_LP_%s.cfg' % group), 'w') as f:
                f.write('SPECIFICATION TraceSpec\nCONSTANTS\n Threads = {1, 2}\n NRows = %d\n PublishFirst = %s\n'
                        'INVARIANT Accepted\nINVARIANT ObservedAtomic\nINVARIANT ObservedLinearizable\nCHECK_DEADLOCK FALSE\n' % (
                            nrows, 'TRUE' if publish_first else 'FALSE'))
            pth = sc_.file('lp_%s.ndjson' % group)
            common.write_ndjson(pth, (t for _, t in tr))
            r = common.run_tlc(specdir, 'Trace_LazyPublish', 'Trace_LP_%s.cfg' % group, workers=8, env={'TRACE_FILE': pth}, heap='4g')
            rep.absorb_tlc(r, traces=len(tr))
            accepted = {pr['accepted'] for pr in r.printed if 'accepted' in pr}
            hazard = {pr['hazard'] for pr in r.printed if 'hazard' in pr}
            nonlin = {pr['nonlinearizable'] for pr in r.printed if 'nonlinearizable' in pr}
            rejected = [tr[k - 1][0] for k in range(1, len(tr) + 1) if k not in accepted]
            rep.cov.setdefault('pluscal_trace_validation', {})[group] = dict(
                traces=len(tr), accepted=len(accepted), rejected=len(rejected), rows=nrows, variant='publish-first (as it was)' if publish_first else 'publish-after-fill',
                half_filled_table_observable=len(hazard), modelled_caller_missed_its_row=len(nonlin))
            for q in rejected[:5]:
                s, seg = jobs[q]
                rep.add_drift('%s: execution under schedule %s is not a behaviour of LazyPublish' % (group, seg))
            # the model's verdict against the real answers: a modelled miss with correct real answers means the
            # model misrepresents the code
            for k in sorted(nonlin & accepted)[:5]:
                q = tr[k - 1][0]
                s, seg = jobs[q]
                if execs[q]['results'] == s['expected']:
                    rep.add_drift('%s: LazyPublish says a caller missed its row under schedule %s, the real calls answered correctly' % (group, seg))
        phases['pluscal_trace_validation'] = round(_t.time() - t0, 1)
        rep.setcov('phase_end_s', phases)
        for (s, seg), ex in zip(jobs, execs):
            distinct.add((s['id'], bytes(ex['executed']) if not isinstance(ex['executed'], bytes) else ex['executed']))
        rep.setcov('scenarios', len(S))
        rep.setcov('schedules_executed', len(jobs))
        rep.setcov('distinct_nontrivial', len(distinct))
        rep.setcov('rule', 'distinct (scenario, actual interleaving of granted steps) pairs')
        rep.setcov('max_forced_preemptions', 1 if quick else 2)
        rep.setcov('steps_per_call', {('%d:%s' % (s['id'], s['calls'][0][0])): s['counts'] for s in S[:12]})
        if max(max(s['counts'].values()) for s in S) < 5:
            raise MachineryError('vacuity guard: the scheduler saw almost no visible lines')
        for q in (0, len(jobs) // 2, len(jobs) - 1):
            s, seg = jobs[q]
            rep.sample({'calls': [repr(c) for c in s['calls']], 'variant': s['variant'], 'segments': seg,
                        'results': execs[q]['results'], 'interleaving': ''.join(map(str, list(execs[q]['executed'])))[:120]})
    rep.assumptions += ['granularity is the source line inside athlib (sys.settrace line events); C-level atomicity under the GIL is assumed',
                        'pre-emptions only at AST-detected visible lines (self.* or module-global access); bound: %d forced pre-emptions' % (1 if quick else 2),
                        'single-threaded reference = the same call made alone in a fresh forked process in the same warm/prefill state']
    return rep.finish()


def replay(rec):
    common.use_repo()
    import athlib  # noqa
    r = rec['replay']
    sc = dict(r['scenario'])
    sc['calls'] = [(c[0], tuple(c[1]), c[2]) for c in sc['calls']]
    sc['prefill'] = tuple(sc['prefill']) if sc['prefill'] else None
    sc['epilogue'] = [(c[0], tuple(c[1]), c[2]) for c in sc.get('epilogue', [])]
    seg = [tuple(x) for x in r['segments']]
    ex = isolated(_execute, (sc, seg))
    for i, c in enumerate(sc['calls'] + sc['epilogue']):
        print('  thread %d %s%r -> %s   (alone: %s)' % (i, c[0], c[1], ex['results'][i], isolated(_solo, (sc, i))))
    print('  interleaving', ''.join(map(str, ex['executed'])))
    return 0
