from . import agegrade


def run(tier):
    return agegrade.run15(tier)


def replay(rec):
    return agegrade.replay(rec)
