"""C05 - a better performance never scores fewer points, in any scoring system.

Re-uses the sweeps of C01 (combined events, with and without age adjustment) and C11 (Tyrving,
QuadKids, Sportshall, Bulgarian) and adds the Hungarian tables; TLC (Trace_Athlon / Trace_Junior /
Trace_Scoring) checks monotonicity across *all adjacent pairs* of the run-length encoded grids, the
bounds, integer results and the Tyrving hand-timing clause.  The monotonicity of the references
themselves is proved in the model runs (MC_Athlon, MC_Junior)."""
import random, sys
from multiprocessing import Pool
from . import common, athlon, junior
from .common import Report, Scratch, MachineryError


def _hun_job(job):
    common.use_repo()
    import athlib
    g, io, ev, high, marks = job
    segs, prev, n = [], None, 0
    for c in marks:
        try:
            r = athlib.hungarian_score(g, io, ev, c / 100.0)
            if isinstance(r, bool) or not isinstance(r, int):
                r = -1000003
        except (AssertionError, KeyError, ValueError):
            r = -1000001
        except Exception:
            r = -1000002
        n += 1
        if prev is not None and prev[2] == r:
            prev[1] = c
        else:
            prev = [c, c, r]
            segs.append(prev)
    return {'k': 'hun', 'key': '%s|%s|%s' % (g, io, ev), 'high': high, 'segs': segs, 'n': n}


def hungarian_jobs(quick, rng):
    common.use_repo()
    import athlib
    H = sys.modules['athlib.hungarian_score']
    jobs = []
    if not isinstance(getattr(H, 'FACTORS', None), (list, tuple)):
        return jobs          # the coefficient list is not kept under its name: the Hungarian domain cannot be derived
    cap = 4000 if quick else 200000
    for (g, io, ev, a, b, c) in H.FACTORS:
        if b < 0:       # timed: from a third of the zero-point mark up to the zero point (no slower)
            zero = int(round(-b * 100))
            lo, hi, high = zero // 3, zero, False
        elif ev in ('DEC', 'HEP', 'PEN'):
            lo, hi, high = 100000, 1000000, True      # points totals 1000..10000
        else:           # field: from 0 to well beyond any record
            lo, hi, high = 0, 12000 if ev in ('DT', 'HT', 'JT') else 3000, True
        jobs.append((g, io, ev, high, junior.marks_for(lo, hi, cap, rng, [hi if not high else lo])))
    return jobs


def run(tier):
    rep = Report('C05', tier, 'model_checking')
    quick = tier == 'quick'
    rng = random.Random(common.seed() * 71 + 5)
    with Scratch('C05') as sc:
        specdir = common.prepare_spec_dir(sc)
        for mod in ('MC_Athlon', 'MC_Junior'):
            r = common.run_tlc(specdir, mod, mod + '.cfg', heap='6g', timeout=3000)
            if r.violated:
                raise MachineryError('%s: the reference is not monotone (%s)' % (mod, r.violated))
            rep.absorb_tlc(r)
        # combined events
        jobs, _ = athlon.sweep_jobs(True, rng)
        with Pool(common.NCPU) as pool:
            arecs = pool.map(athlon._seg_job, jobs, chunksize=2)
            hrecs = pool.map(_hun_job, hungarian_jobs(quick, rng), chunksize=2)
        rep.count('evaluations', sum(x['n'] for x in arecs) + sum(x['n'] for x in hrecs))
        slim = [{k: v for k, v in x.items() if k not in ('n', 'form', 'sg', 'se')} for x in arecs]
        reports, outs = common.validate_records(specdir, sc, 'Trace_Athlon', slim, tag='ath')
        for r in outs:
            rep.absorb_tlc(r, traces=1)
        for pr in reports:
            x = arecs[pr['index']]
            for cl in pr['clauses']:
                if cl in athlon.C05_CLAUSES:
                    rep.add_violation('%s:athlon:%s-%s:%s' % (cl, x['g'], x['e'], 'age' if x['age'] else 'noage'),
                                      '%s: athlon_score(%r, %r, age=%s) over ascending marks: %s' % (cl, x['g'], x['e'], x['age'], _dip(x['segs'])),
                                      {'sys': 'athlon', 'g': x['g'], 'e': x['e'], 'age': x['age']})
        # junior systems
        jrecs = junior.sweep(quick, rng)
        junior.judge(rep, specdir, sc, jrecs, junior.C05_CLAUSES)
        # Hungarian
        slim = [{k: v for k, v in x.items() if k != 'n'} for x in hrecs]
        reports, outs = common.validate_records(specdir, sc, 'Trace_Scoring', slim, tag='hun')
        for r in outs:
            rep.absorb_tlc(r, traces=1)
        for pr in reports:
            x = hrecs[pr['index']]
            for cl in pr['clauses']:
                rep.add_violation('%s:hungarian:%s' % (cl, x['key']), '%s: hungarian_score %s at run %s' % (cl, x['key'], pr.get('at')),
                                  {'sys': 'hungarian', 'key': x['key'], 'at': pr.get('at')})
        rep.cov['records']['seg:athlon'] = len(arecs)
        rep.cov['records']['seg:hungarian'] = len(hrecs)
        rep.cov['distinct_nontrivial'] += sum(len(x['segs']) for x in arecs) + sum(len(x['segs']) for x in hrecs)
        if hrecs:
            rep.sample({'hungarian': hrecs[0]['key'], 'segs': hrecs[0]['segs'][:4]})
        else:
            rep.notes.append('athlib.hungarian_score.FACTORS is not available under its name: the Hungarian sweep was not run')
    rep.assumptions += ['Hungarian: integer results and monotonicity on the monotone side of the parabola only (marks no slower than the zero point); no bounds are asserted for it',
                        'all adjacent pairs = adjacent runs of the run-length encoded ascending grid (equal values inside a run)']
    return rep.finish()


def _dip(segs):
    for a, b in zip(segs, segs[1:]):
        if a[2] >= 0 and b[2] >= 0 and a[2] != b[2]:
            pass
    return segs[:3]


def replay(rec):
    r = rec['replay']
    common.use_repo()
    import athlib
    if r.get('sys') == 'hungarian':
        g, io, ev = r['key'].split('|')
        at = r.get('at') or [0, 0, 0]
        for c in range(at[1] - 1, at[1] + 3):
            print('  hungarian_score(%r, %r, %r, %.2f) -> %s' % (g, io, ev, c / 100.0, athlib.hungarian_score(g, io, ev, c / 100.0)))
        return 0
    if r.get('sys') == 'athlon':
        print('  see bin/check C01 for the combined-events sweep of %s-%s age=%s' % (r['g'], r['e'], r['age']))
        return 0
    return junior.replay(rec)
