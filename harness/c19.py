"""C19 - schema validation answers do not depend on what was validated before.

(a) TLC explores SchemaCache.tla over all abstract histories (length <= 3, cache limit 2) and
    emits them; the pre-fix variant (AsWas) must be refuted (the property is falsifiable).
(b) every concrete call is first executed in a fresh process (fork of a parent that has only
    imported athlib, with sockets disabled) - the property's oracle; every TLC history is
    instantiated with concrete files and replayed in its own process from empty caches; random
    long histories overflow the 20-entry caches.
(c) Trace_SchemaCache.tla validates each recorded history: Monitor out = fresh; ModelStep.
"""
import os, sys, json, random, glob, pickle
from . import common
from .common import Report, Scratch, MachineryError

VALIDATORS = ['Draft3Validator', 'Draft4Validator', 'Draft6Validator', 'Draft7Validator']


def universe():
    repo = common.REPO
    schemas = sorted('json/' + os.path.basename(p) for p in glob.glob(os.path.join(repo, 'json', '*.json')))
    defs = sorted('json/definitions/' + os.path.basename(p) for p in glob.glob(os.path.join(repo, 'json', 'definitions', '*.json')))
    samples = sorted('sample-jsons/' + os.path.basename(p) for p in glob.glob(os.path.join(repo, 'sample-jsons', '*.json')))
    sv = [('sv', s, v) for s in schemas + defs for v in VALIDATORS]
    # every bundled schema - the definition files too - can be the schema a document is validated against
    va = [('va', j, s) for j in samples for s in schemas] + [('va', j, s) for j in samples[::3] for s in defs]
    return sv, va, schemas, samples


def ref_pairs():
    """(A, B): schema file A refers (directly or through other files) to schema file B by a file $ref - read from the
    files themselves.  Loading A makes the implementation load B: a history in which B is used after A (or A after B) is
    where anything remembered about a *file* (rather than about a call) would show."""
    import re
    repo = common.REPO
    files = sorted('json/' + os.path.basename(p) for p in glob.glob(os.path.join(repo, 'json', '*.json'))) + \
        sorted('json/definitions/' + os.path.basename(p) for p in glob.glob(os.path.join(repo, 'json', 'definitions', '*.json')))
    direct = {}
    for f in files:
        try:
            txt = open(os.path.join(repo, f)).read()
        except OSError:
            continue
        tg = set()
        for m in re.finditer(r'"\$ref"\s*:\s*"(?:file:///)?([^"#]+)#?[^"]*"', txt):
            t = m.group(1)
            if t in files and t != f:
                tg.add(t)
        direct[f] = tg
    closure = {f: set(t) for f, t in direct.items()}
    changed = True
    while changed:
        changed = False
        for f in closure:
            for t in list(closure[f]):
                new = closure.get(t, set()) - closure[f] - {f}
                if new:
                    closure[f] |= new
                    changed = True
    return sorted((a, b) for a, ts in closure.items() for b in ts)


def key_id(call):
    return '%s|%s' % (call[1], call[2])


def do_call(call, ef):
    """Execute one concrete call in *this* process; returns the outcome string."""
    import jsonschema
    from athlib import utils
    try:
        if call[0] == 'sv':
            r = utils.schema_valid(call[1], validator=getattr(jsonschema, call[2]), expect_failure=ef)
        else:
            r = utils.valid_against_schema(call[1], call[2], expect_failure=ef)
        return 'True' if r is True else 'False' if r is False else 'Value:%r' % (r,)
    except BaseException as e:
        # the schema / validation error: subclasses count as the class the property names
        for base in (jsonschema.SchemaError, jsonschema.ValidationError):
            if isinstance(e, base):
                return 'Raise:' + base.__name__
        return 'Raise:' + type(e).__name__


def _child_setup():
    # relative file references must resolve without network access: any attempt is an error
    import socket

    def no_net(*a, **k):
        raise OSError('network access attempted')
    socket.socket = no_net
    socket.create_connection = no_net
    devnull = open(os.devnull, 'w')
    sys.stdout = devnull       # the helpers print the validation error on the non-raising path


def isolated(fn, arg):
    """Run fn(arg) in a forked child of this (pristine) process; returns its result."""
    r, w = os.pipe()
    pid = os.fork()
    if pid == 0:
        code = 0
        try:
            os.close(r)
            _child_setup()
            res = fn(arg)
            with os.fdopen(w, 'wb') as f:
                pickle.dump(res, f)
        except BaseException:
            code = 3
        os._exit(code)
    os.close(w)
    with os.fdopen(r, 'rb') as f:
        data = f.read()
    _, st = os.waitpid(pid, 0)
    if st != 0 or not data:
        raise MachineryError('isolated child failed (status %s)' % st)
    return pickle.loads(data)


def _caches(utils):
    """The two memo dicts, if the implementation still keeps them under these (private) names.  They are observed only
    to bind the cache *model* (drift) and to confirm that the harness starts from empty caches; the property itself is
    judged on outcomes alone, so an implementation that stores its results differently is simply not observed here."""
    a = getattr(utils, '_schema_valid_cache', None)
    b = getattr(utils, '_valid_against_schema_cache', None)
    if isinstance(a, dict) and isinstance(b, dict):
        return a, b
    return None


def _fresh_one(arg):
    call, ef = arg
    from athlib import utils
    cc = _caches(utils)
    assert cc is None or (not cc[0] and not cc[1])
    return do_call(call, ef)


def _history(calls):
    from athlib import utils
    cc = _caches(utils)
    assert cc is None or (not cc[0] and not cc[1])
    out = []
    for call, ef in calls:
        o = do_call(call, ef)
        if cc is None:
            out.append((o, None, None))
        else:
            out.append((o, [_keytext(k) for k in list(cc[0].keys())], [_keytext(k) for k in list(cc[1].keys())]))
    return out


def _keytext(k):
    """cache key -> the key id used in the traces; any other key shape is rendered as text (drift only)"""
    try:
        if isinstance(k, tuple) and len(k) == 2:
            return '%s|%s' % (k[0], getattr(k[1], '__name__', k[1]))
    except Exception:
        pass
    return 'key:%r' % (k,)


def _pool_fresh(arg):
    return isolated(_fresh_one, arg)


def _pool_history(calls):
    return isolated(_history, calls)


def run(tier):
    rep = Report('C19', tier, 'model_checking')
    quick = tier == 'quick'
    rng = random.Random(common.seed() * 31 + 19)
    common.use_repo()
    os.chdir(common.REPO)
    import athlib.utils  # noqa: parent imports only; it never calls the helpers itself
    from multiprocessing import get_context
    ctx = get_context('fork')
    sv, va, schemas, samples = universe()
    with Scratch('C19') as sc:
        specdir = common.prepare_spec_dir(sc)
        # (a) model
        r = common.run_tlc(specdir, 'MC_SchemaCache', 'MC_SchemaCache.cfg', workers=4, heap='2g')
        if r.violated:
            raise MachineryError('SchemaCache model violates %s' % r.violated)
        rep.absorb_tlc(r)
        hists = [pr['hist'] for pr in r.printed]
        r2 = common.run_tlc(specdir, 'MC_SchemaCache', 'MC_SchemaCache_aswas.cfg', workers=4, heap='2g')
        if r2.violated != 'HistoryIndependent':
            raise MachineryError('vacuity guard: the pre-fix model is not refuted (%s)' % r2.violated)
        rep.setcov('model', dict(histories=len(hists), states=r.distinct, prefix_variant_refuted=True))
        # (a') histories of any length: Apalache discharges an inductive invariant over the same Validate
        # operator at the real cache limit; guards: the pre-fix step is not inductive, IndInit is not vacuous
        from concurrent.futures import ThreadPoolExecutor
        obligations = [('base', 'Init', 'IndInv', 0, 'Next', 'NoError'), ('step', 'IndInit', 'IndInv', 1, 'Next', 'NoError'),
                       ('aswas_step_refuted', 'IndInit', 'IndInv', 1, 'NextAsWas', 'Error'),
                       ('indinit_reaches_full_cache', 'IndInit', 'NotFullWithFailure', 0, 'Next', 'Error')]
        with ThreadPoolExecutor(max_workers=4) as ex:
            apa = list(ex.map(lambda o: common.run_apalache(specdir, 'Apa_SchemaCache', o[1], o[2], o[3], next_=o[4], tag=o[0]), obligations))
        for o, got in zip(obligations, apa):
            if got != o[5]:
                raise MachineryError('Apalache obligation %s of Apa_SchemaCache: expected %s, got %s' % (o[0], o[5], got))
        rep.setcov('inductive_invariant', dict(tool='apalache', module='Apa_SchemaCache', max_len=20, keys=24,
                                               obligations={o[0]: g for o, g in zip(obligations, apa)},
                                               meaning='HistoryIndependent holds after histories of any length in the model'))
        # (a'') ... and for every cache limit, key set and ground truth: the TLA+ proof system checks the proof of
        # ValidateLikeFresh (Proof_SchemaCache.tla) - Validate answers like a fresh process from every cache satisfying
        # IsCache and re-establishes IsCache; the empty cache satisfies it
        nobl = common.run_tlapm(specdir, 'Proof_SchemaCache')
        rep.setcov('machine_checked_proof', dict(tool='tlapm', module='Proof_SchemaCache', theorem='ValidateLikeFresh', obligations_proved=nobl,
                                                 meaning='for every limit >= 1, key set, ground truth (valid / invalid / broken) and cache satisfying IsCache: '
                                                         'outcome = fresh outcome and IsCache is preserved; IsCache(<<>>)'))
        # (b) fresh outcomes: the oracle
        allcalls = [(c, ef) for c in sv + va for ef in (False, True)]
        with ctx.Pool(common.NCPU) as pool:
            fresh = dict(zip([(key_id(c), c[0], ef) for c, ef in allcalls], pool.map(_pool_fresh, allcalls, chunksize=8)))
        rep.count('evaluations', len(allcalls))
        F = lambda c, ef: fresh[(key_id(c), c[0], ef)]
        cls = {}
        for c in sv + va:
            cls.setdefault((c[0], 'v' if F(c, False) == 'True' else 'i' if F(c, False) == 'False' else 'b'), []).append(c)
        for k in (('sv', 'v'), ('sv', 'i'), ('va', 'v'), ('va', 'i')):
            if len(cls.get(k, [])) < 3:
                raise MachineryError('vacuity guard: fewer than 3 concrete keys of class %s' % (k,))
        rep.setcov('concrete_keys', {'%s-%s' % k: len(v) for k, v in cls.items()})
        # last clause of the property: bundled samples against the schema they are named after
        names = sorted((os.path.basename(s)[:-5] for s in schemas), key=len, reverse=True)
        for smp in samples:
            base = os.path.basename(smp)
            sch = next((n for n in names if base.startswith(n)), None)
            if sch is None:
                continue
            c = ('va', smp, 'json/%s.json' % sch)
            exp_valid = 'invalid' not in base
            o, oe = F(c, False), F(c, True)
            ok = (o == 'True' and oe == 'True') if exp_valid else (o == 'False' and oe == 'Raise:ValidationError')
            rep.count('bundled_sample_pairs')
            if not ok:
                rep.add_violation('bundled_sample:%s' % base,
                                  'bundled sample %s against %s: fresh outcomes %s / %s (expected %s)' % (
                                      smp, c[2], o, oe, 'valid' if exp_valid else 'invalid'),
                                  {'calls': [[list(c), False], [list(c), True]]})
        # (b') instantiate the TLC histories
        histories = []
        ninst = 1 if quick else 4
        for hi, h in enumerate(hists):
            for inst in range(ninst):
                calls = []
                if any((a['fn'], a['k'][0]) not in cls for a in h):
                    continue            # (no concrete key of that class among the bundled files)
                for j, a in enumerate(h):
                    lst = cls[(a['fn'], a['k'][0])]
                    idx = (hi * 7 + inst * 13 + int(a['k'][1]) * 5) % len(lst)
                    calls.append((lst[idx], a['ef']))
                histories.append(calls)
        # related keys: two keys of the same cache that share a component (same schema file under two validator
        # classes, same document against two schemas, two documents against one schema, './json/x' vs 'json/x'):
        # a key that drops or normalises away an argument is only visible on such pairs
        related = []
        by_file = {}
        for c in sv:
            by_file.setdefault(c[1], []).append(c)
        for f, lst in sorted(by_file.items()):
            for a in lst:
                for b in lst:
                    if a != b:
                        related.append((a, b))
        by_doc, by_schema = {}, {}
        for c in va:
            by_doc.setdefault(c[1], []).append(c)
            by_schema.setdefault(c[2], []).append(c)
        for grp in list(by_doc.values()) + list(by_schema.values()):
            diff = [(a, b) for a in grp for b in grp if a != b and F(a, False) != F(b, False)]
            same = [(a, b) for a in grp for b in grp if a != b and F(a, False) == F(b, False)]
            related += diff[:6 if quick else 40] + same[:2 if quick else 10]
        for a, b in related:
            for ef1 in (False, True):
                for ef2 in (False, True):
                    histories.append([(a, ef1), (b, ef2)])
                    histories.append([(a, ef1), (b, ef2), (a, ef2)])
        # schema files that refer to each other: a call that loads file B as a side effect of using file A, then a call
        # about B itself (as the schema of a document, or checked as a schema), and the other way round
        rp = ref_pairs()
        docs_for = {}
        for c in va:
            docs_for.setdefault(c[2], []).append(c)
        n_refpairs = 0
        for a_file, b_file in rp:
            As = docs_for.get(a_file, [])[:1] + [c for c in docs_for.get(a_file, []) if os.path.basename(c[1]).startswith(os.path.basename(a_file)[:-5])][:1]
            Bs = docs_for.get(b_file, [])[:2] + [('sv', b_file, 'Draft4Validator'), ('sv', b_file, 'Draft7Validator')]
            for x in As[:2] + [('sv', a_file, 'Draft4Validator')]:
                for y in Bs:
                    for e1 in ((False, True) if not quick else (False,)):
                        for e2 in (False, True):
                            histories.append([(x, e1), (y, e2)])
                            histories.append([(y, e2), (x, e1), (y, not e2)])
                            n_refpairs += 2
        n_related = len(related)
        # the same file under a different spelling of its path
        for c in (sv + va)[::5 if quick else 1]:
            alt = (c[0], './' + c[1], c[2]) if c[0] == 'sv' else (c[0], './' + c[1], './' + c[2])
            alt2 = (c[0], c[1], './' + c[2]) if c[0] == 'va' else None
            for x in (alt, alt2):
                if x is None:
                    continue
                fresh[(key_id(x), x[0], False)] = isolated(_fresh_one, (x, False))
                fresh[(key_id(x), x[0], True)] = isolated(_fresh_one, (x, True))
                histories.append([(c, False), (x, False), (x, True)])
                histories.append([(x, True), (c, True), (c, False)])
        nlong = 60 if quick else 500
        for i in range(nlong):
            n = rng.randint(25, 60)
            src = (sv, va, sv + va)[i % 3]
            pool_ = rng.sample(src, rng.randint(22, 45))
            histories.append([(rng.choice(pool_), rng.random() < 0.4) for _ in range(n)])
        # an sv-only and a va-only history that certainly overflow one cache
        histories.append([(c, False) for c in sv[:30]] + [(c, True) for c in sv[:30]])
        histories.append([(c, False) for c in va[:30]] + [(c, True) for c in va[:30]])
        # ... and that would overflow much larger caches too (the limit is an implementation detail)
        histories.append([(c, False) for c in sv[:150]] + [(c, True) for c in sv[:150:3]] + [(c, False) for c in sv[:150:2]])
        histories.append([(c, False) for c in va[:150]] + [(c, True) for c in va[:150:3]] + [(c, False) for c in va[:150:2]])
        # the call history of the repository's own test session (tests/test_json.py run under the recording plugin):
        # replayed here from empty caches, and its recorded outcomes are compared with the fresh-process outcomes too
        suite_hist, suite_outs = suite_history(sc)
        for c, ef in suite_hist:
            for e2 in (False, True):
                if (key_id(c), c[0], e2) not in fresh:
                    fresh[(key_id(c), c[0], e2)] = isolated(_fresh_one, (c, e2))
        if suite_hist:
            histories.append(list(suite_hist))
        with ctx.Pool(common.NCPU) as pool:
            results = pool.map(_pool_history, histories, chunksize=16)
        traces, evictions, observable, overflowed, maxlen_seen = [], 0, True, 0, 0
        for calls, res in zip(histories, results):
            recs, prev = [], ([], [])
            for (c, ef), (o, svk, vak) in zip(calls, res):
                obs_ = svk is not None
                observable = observable and obs_
                recs.append({'fn': c[0], 'k': key_id(c), 'ef': ef, 'out': o, 'fresh': F(c, ef), 'fresh0': F(c, False), 'obs': obs_,
                             'svk': svk or [], 'vak': vak or []})
                if obs_:
                    if len(svk) == 20 or len(vak) == 20:
                        evictions += 1
                    maxlen_seen = max(maxlen_seen, len(svk), len(vak))
                    # a key that was held is gone: an eviction happened (whatever the limit is)
                    if (set(prev[0]) - set(svk)) or (set(prev[1]) - set(vak)):
                        overflowed += 1
                    prev = (svk, vak)
            traces.append({'calls': recs})
        rep.count('evaluations', sum(len(h) for h in histories))
        rep.setcov('histories', dict(from_tlc=len(hists) * ninst, related_key_pairs=n_related, file_reference_histories=n_refpairs, long_random=nlong + 4, steps_at_cache_limit=evictions,
                                     caches_observable=observable, steps_after_overflow=overflowed, largest_cache_seen=maxlen_seen,
                                     repository_suite_history=len(suite_hist)))
        if observable and not overflowed and not evictions:
            raise MachineryError('vacuity guard: no history overflowed a cache (largest seen: %d entries)' % maxlen_seen)
        if not observable:
            rep.notes.append('the memo dicts are not kept under their former names: the cache model is not bound in this run '
                             '(outcomes are still compared with fresh-process outcomes on every history)')
        elif not overflowed:
            rep.notes.append('no history overflowed the caches (largest seen %d entries, up to %d distinct keys per history)' % (maxlen_seen, 150))
        # (c) TLC validates
        shards = common.shard(list(range(len(traces))), common.NCPU)
        envs = []
        for k, idx in enumerate(shards):
            p = sc.file('sc_%d.ndjson' % k)
            common.write_ndjson(p, (traces[q] for q in idx))
            envs.append({'TRACE_FILE': p})
        outs = common.run_tlc_shards(specdir, 'Trace_SchemaCache', 'Trace_SchemaCache.cfg', envs, workers_each=1)
        for idx, r in zip(shards, outs):
            want = sum(len(traces[q]['calls']) for q in idx) + len(idx)
            if r.distinct != want:
                raise MachineryError('schema trace shard not fully consumed (%d/%d)' % (r.distinct, want))
            rep.absorb_tlc(r, traces=len(idx))
            for pr in r.printed:
                q = idx[pr['tid'] - 1]
                calls = histories[q][:pr['l']]
                rec = traces[q]['calls'][pr['l'] - 1]
                if pr['kind'] == 'drift':
                    rep.add_drift('%s at %s' % (pr['clauses'], rec))
                    continue
                rep.add_violation('history:%s:ef=%s:%s->%s' % (rec['fn'], rec['ef'], rec['fresh'], rec['out']),
                                  'after %d earlier call(s) %s(%s, expect_failure=%s) gave %s; fresh process gives %s' % (
                                      pr['l'] - 1, rec['fn'], rec['k'], rec['ef'], rec['out'], rec['fresh']),
                                  {'calls': [[list(c), ef] for c, ef in calls]})
        # binding self-test (DESIGN section 7): histories TLC accepted, with the recorded outcome of one call flipped,
        # must be rejected - otherwise the trace specification does not look at what was recorded
        flagged_q = {idx[pr['tid'] - 1] for idx, r in zip(shards, outs) for pr in r.printed}
        import copy as _copy
        bad = []
        for q, t in enumerate(traces):
            if q in flagged_q or not t['calls'] or len(t['calls']) > 30:
                continue
            c = _copy.deepcopy(t)
            rec = c['calls'][-1]
            rec['out'] = 'False' if rec['out'] != 'False' else 'True'
            bad.append(c)
            if len(bad) >= 6:
                break
        if bad and not os.environ.get('VERIF_NO_SELFTEST'):
            p = sc.file('sc_selftest.ndjson')
            common.write_ndjson(p, bad)
            r = common.run_tlc_shards(specdir, 'Trace_SchemaCache', 'Trace_SchemaCache.cfg', [{'TRACE_FILE': p}], workers_each=1)[0]
            rejected = len({pr['tid'] for pr in r.printed if pr.get('kind') != 'drift'})
            common.SELFTESTS.append({'trace_spec': 'Trace_SchemaCache', 'corrupted': len(bad), 'rejected': rejected})
            if rejected < len(bad):
                raise MachineryError('binding self-test: Trace_SchemaCache accepted %d of %d corrupted histories' % (len(bad) - rejected, len(bad)))
        # the outcomes the test session itself saw (recorded inside pytest, one process, the suite's own order)
        for i, ((c, ef), o) in enumerate(zip(suite_hist, suite_outs)):
            rep.count('suite_session_calls_compared')
            if o != F(c, ef):
                rep.add_violation('history:%s:ef=%s:%s->%s' % (c[0], ef, F(c, ef), o),
                                  'in the repository test session, call %d %s(%s, expect_failure=%s) gave %s; fresh process gives %s' % (
                                      i + 1, c[0], key_id(c), ef, o, F(c, ef)),
                                  {'calls': [[list(c_), e_] for c_, e_ in suite_hist[:i + 1]]})
        rep.setcov('distinct_nontrivial', len({json.dumps(t, sort_keys=True) for t in traces}))
        rep.setcov('rule', 'distinct recorded histories (call sequence with outcomes and cache key lists)')
        rep.sample({'history': [(key_id(c), ef) for c, ef in histories[len(hists) // 2]],
                    'outcomes': [x[0] for x in results[len(hists) // 2]]})
        rep.sample({'history_len': len(histories[-3]), 'first_calls': [(key_id(c), ef) for c, ef in histories[-3][:4]]})
    rep.assumptions += ['"fresh process" = fork of a parent that imported athlib and never called the helpers (caches asserted empty)',
                        'sockets are disabled in every child; a network attempt surfaces as a different outcome',
                        'model bounds: 4 abstract keys per cache, limit 2, histories <= 3; concrete limit 20']
    return rep.finish()


def suite_history(sc):
    """tests/test_json.py under harness/pytest_trace.py: the session's schema_valid / valid_against_schema calls in the
    c19 call format, and the outcomes the session saw.  Calls the format cannot express are dropped (with the rest of
    the history kept in order, which is still a history)."""
    import subprocess
    out = sc.file('suite_schema.ndjson')
    env = dict(os.environ, VERIF_PYTEST_TRACE=out, PYTHONPATH=common.VERIF + os.pathsep + common.REPO, ATHLIB_VERIF='1',
               PYTHONDONTWRITEBYTECODE='1')
    subprocess.run([sys.executable, '-m', 'pytest', '-q', '-p', 'no:cacheprovider', '-p', 'harness.pytest_trace', 'tests/test_json.py'],
                   cwd=common.REPO, env=env, stdout=subprocess.PIPE, stderr=subprocess.STDOUT, timeout=900)
    calls, outs = [], []
    if not os.path.exists(out):
        return calls, outs
    import inspect
    from athlib import utils
    try:
        default_validator = inspect.signature(utils.schema_valid).parameters['validator'].default.__name__
    except Exception:
        default_validator = 'Draft3Validator'
    with open(out) as f:
        for line in f:
            d = json.loads(line)
            if d.get('kind') != 'schema':
                continue
            for h in d['history']:
                a, kw = h['args'], h['kwargs']
                if set(kw) - {'validator', 'expect_failure', 'schema_file', 'json_file'}:
                    continue
                ef = bool(kw.get('expect_failure', a[2] if len(a) > 2 and h['fn'] == 'valid_against_schema' else (a[2] if len(a) > 2 else False)))
                if h['fn'] == 'schema_valid':
                    v = kw.get('validator', a[1] if len(a) > 1 else 'class:' + default_validator)
                    if not (isinstance(v, str) and v.startswith('class:')) or not a or not isinstance(a[0], str):
                        continue
                    c = ('sv', a[0], v[6:])
                else:
                    if len(a) < 2 or not all(isinstance(x, str) for x in a[:2]):
                        continue
                    c = ('va', a[0], a[1])
                o = h['out']
                o = 'Raise:' + o[4:] if o.startswith('exc:') else o[4:] if o in ('ret:True', 'ret:False') else 'Value:' + o[4:]
                calls.append((c, ef))
                outs.append(o)
    return calls, outs


def replay(rec):
    common.use_repo()
    os.chdir(common.REPO)
    calls = [((c[0], c[1], c[2]), ef) for c, ef in rec['replay']['calls']]
    fresh = isolated(_fresh_one, calls[-1])
    res = isolated(_history, calls)
    for (c, ef), (o, _, _) in zip(calls, res):
        print('  %s(%s, expect_failure=%s) -> %s' % (c[0], key_id(c), ef, o))
    print('  the last call made first in a fresh process -> %s' % fresh)
    return 0
