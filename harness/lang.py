"""The event-code language as data (C07 / C10 / C12 / C17).

generate(sc, rep) explores, with TLC, the product automaton of the live patterns over a *refined*
alphabet (every ASCII letter, digit, ' ' and tab its own class) and returns
  - tr, specdir  (the translated NFAs; EventCodesNFA.tla is in specdir for the trace specs)
  - codes:      one witness per accepting product state and per accepting transition, multi-member
                classes instantiated with several representatives (whole language of PAT_EVENT_CODE
                up to loop unrolling)
  - nearmiss:   one witness per non-accepting state / transition adjacent to the language
Longer members (digit runs, realistic codes, mutations) are added by variants(); whether a candidate
is a code is always decided by TLC (CodeText!IsCode) in the trace specs, never by the harness.
"""
import random, string
from . import common, rx, c04

ASCII_SPLIT = tuple({ord(ch)} for ch in string.ascii_letters + string.digits + ' \t.:')

REALISTIC = ['100', '200', '400', '800', '1500', '3000', '5000', '10000', '60', '60H', '100H', '110H', '400H', '3000SC',
             '2000SC', '1500SC', 'SC', 'LH', 'SH', 'MILE', '2MILE', 'HM', 'MAR', 'XC', '5K', '10K', '10.5K', '5M', '10M',
             '20KW', '3000W', '5KW', '100K', '4x100', '4x400', '4x100H', '3x800', '12x200', '4xRELAY', '4xDMR', '4xSMR',
             '6xSDMR', '4xSSMR', '4xSWR', '6x5K', '4x1.5K', 'HJ', 'PV', 'LJ', 'TJ', 'SHJ', 'SLJ', 'STJ', 'SP', 'DT', 'HT',
             'JT', 'WT', 'SWT', 'BT', 'ST', 'GDT', 'OT', 'SDT', 'SJT', 'SSP', 'SBT', 'CT', 'TART', 'OHT', 'CHT',
             'SP7.26K', 'SP4K', 'SP3.25K', 'DT1.5K', 'DT0.75K', 'HT7.26K', 'HT4K', 'JT800', 'JT600', 'JT400', 'WT15.88K',
             'WT9.08K', 'WT35K', 'SWT25.4K', 'BT1K', 'ST5K', 'GDT2K', 'OT150', 'OT1000', 'SSP4K', 'SDT1K', 'SJT600', 'CT4K',
             'DEC', 'HEP', 'PEN', 'PENI', 'PENWT', 'BI', 'TRI', 'QUAD', 'HEX', 'OCT', 'ENN', 'HEN', 'DOD', 'ICO',
             'T30', 'T60', 'T5', '24HR', '12HR', '6HW', '1HR', 'H1', 'H9', 'L1', 'L9', 'BAL', 'SPB',
             '80H76.2cm8m', '60H68cm6.5m', '110H106.7cm9.14m', '100H84cm8.5m', '300H76.2cm35m', '200H68cm18.29m',
             '80H33', '80H36', '75H', '70H', '110H100cm9.14m13.72m', '50', '75', '150', '300', '600', '1000', '2000', '2MT',
             '5MT', '100Y', '440Y', '100W', '3000w', '1500W', '200h', '50h', 'sh', 'lh', 'sc', '4X100', '4x100m']


_CORPUS_DONE = []


def add_suite_codes(rep=None):
    """Every event-code-like text the repository's tests pass to the code-taking functions joins REALISTIC (once)."""
    if _CORPUS_DONE:
        return
    _CORPUS_DONE.append(1)
    got = common.corpus_args(('.normalize_event_code', '.check_event_code', '.discipline_sort_key', '.text_discipline_sort_key',
                              '.get_distance', '.get_duration_event_time', '.check_performance_for_discipline'), 0, str)
    got += common.corpus_args(('.get_implement_weight', '.get_specific_event_code'), 0, str)
    got += common.corpus_args(('athlon_score.score', 'athlon_score.performance', '.qkids_score', '.wma_world_best',
                               'AgeGrader.world_best'), 1, str)
    got += common.corpus_args(('.tyrving_score', '.bulgarian_score.score', '.wma_age_factor', '.wma_age_grade', '.calculate_factor',
                               '.calculate_age_grade', '.wma_athlon_age_factor', '.wma_athlon_age_grade'), 2, str)
    got += common.corpus_args(('.sportshall_score',), 0, str)
    new = [c for c in got if 0 < len(c) <= 24 and c not in REALISTIC]
    REALISTIC.extend(sorted(set(new)))
    if rep is not None:
        rep.setcov('repository_suite_codes', len(set(new)))


def generate(sc, rep=None):
    add_suite_codes(rep)
    pats = c04.live_patterns()
    tr, r, specdir = c04.explore(sc, pats, extra_split=ASCII_SPLIT)
    if rep is not None:
        rep.absorb_tlc(r)
    states = r.printed
    if len(states) != r.distinct:
        raise common.MachineryError('language generation: expected one line per product state')
    c04.bind_to_re(tr, pats, states[::7], common.Report('x', 'quick', 'model_checking'))   # spot binding; C04 does all
    codes, near = set(), set()
    for st in states:
        w = st['w']
        for c in range(0, len(tr['classes']) + 1):
            seq = w if c == 0 else w + [c]
            acc = st['acc'] if c == 0 else st['nxt'][c - 1]
            tgt = codes if 'PAT_EVENT_CODE' in acc else near
            nrep = max(len(rx.representatives(tr['classes'][k - 1])) for k in seq) if seq else 1
            for variant in range(min(nrep, 3)):
                tgt.add(c04.instantiate(tr, seq, variant))
    return tr, specdir, sorted(codes), sorted(near), pats


def variants(code, rng, spaces=(' ', '\t', ' ', ' ')):
    """Spellings that differ from `code` only in letter case, spacing, unit suffix (k/kg, g) or trailing
    zeros of a decimal weight / hurdle specification.  (Candidates; TLC decides which are codes.)"""
    out = {code, code.upper(), code.lower(), code.swapcase()}
    for _ in range(3):
        out.add(''.join(ch.upper() if rng.random() < 0.5 else ch.lower() for ch in code))
    # spacing: between a letter and a digit / digit and letter, and around the text
    for i in range(1, len(code)):
        a, b = code[i - 1], code[i]
        if a.isalpha() != b.isalpha() and (a.isdigit() or b.isdigit() or a == '.' or b == '.'):
            for sp in spaces[:2]:
                out.add(code[:i] + sp + code[i:])
    out.add(code + ' ')
    out.add(' ' + code)
    out.add(code + '\n')
    # unit suffixes
    up = code.upper()
    for suf in ('KG', 'K'):
        if up.endswith(suf) and len(code) > len(suf) and (code[-len(suf) - 1].isdigit() or code[-len(suf) - 1] in '. '):
            stem = code[:-len(suf)]
            for s2 in ('K', 'k', 'KG', 'kg', 'Kg', ' kg', ' K'):
                out.add(stem + s2)
    if up.endswith('G') and not up.endswith('KG') and len(code) > 1 and code[-2].isdigit():
        out.add(code[:-1])
        out.add(code[:-1] + ' g')
    elif code[-1:].isdigit() and up[:2] in ('JT', 'OT', 'SJ'):
        out.add(code + 'g')
        out.add(code + ' g')
    # trailing zeros of decimals in weights (K) and hurdle specifications (cm / m)
    import re
    for m in re.finditer(r'(\d+)(\.(\d*))?(?=\s*(?:[Kk][Gg]?|cm|m)\b|\s*(?:[Kk][Gg]?|cm|m)$)', code):
        if not any(t in up for t in ('SP', 'DT', 'HT', 'JT', 'WT', 'BT', 'ST', 'CT', 'CM')):
            continue
        num = m.group(0)
        alts = set()
        if '.' in num:
            alts.add(num + '0')
            alts.add(num + '00')
            stripped = num.rstrip('0')
            alts.add(stripped)
            alts.add(stripped.rstrip('.'))
        else:
            alts.add(num + '.0')
            alts.add(num + '.')
            alts.add(num + '.00')
        for a in alts:
            if a:
                out.add(code[:m.start()] + a + code[m.end():])
    return sorted(out)


def digit_variants(code):
    """The automaton witnesses unroll each digit loop once; numbers in real codes are longer.  Every maximal digit run
    is lengthened (a digit in front, a digit behind) and replaced by multi-digit values.  (Candidates; TLC decides.)"""
    import re
    out = set()
    for m in re.finditer(r'[0-9]+', code):
        run = m.group(0)
        for alt in ('1' + run, run + '5', run + '0', '12', '105', '2500'):
            if alt != run:
                out.add(code[:m.start()] + alt + code[m.end():])
    return sorted(out)


def mutations(code, rng, alphabet):
    """Near-miss candidates: single substitutions, insertions and deletions."""
    out = set()
    for _ in range(6):
        s = list(code)
        op = rng.random()
        i = rng.randrange(len(s) + 1)
        if op < 0.4 and s:
            s[min(i, len(s) - 1)] = rng.choice(alphabet)
        elif op < 0.7:
            s.insert(i, rng.choice(alphabet))
        elif s:
            del s[min(i, len(s) - 1)]
        out.add(''.join(s))
    return sorted(out)


def cps(s):
    return [ord(ch) for ch in s]


def drifted(tr, reports, rep):
    """Records on which the translated automaton and the real engine disagree.  With an exact translation that is a failure
    of the machinery.  When a live pattern uses a construct the translator over-approximates (tr['approx']: atomic
    groups), the automaton's idea of "is a code" is unreliable exactly on those strings: they are left out (C04 judges
    such patterns on the engine's own answers) and counted."""
    idx = {pr['index'] for pr in reports if pr['kind'] == 'drift'}
    if idx and not tr.get('approx'):
        raise common.MachineryError('automaton and re disagree on %d record(s), e.g. index %d' % (len(idx), min(idx)))
    if idx:
        rep.notes.append('%d record(s) left out: patterns %s use constructs translated as an over-approximation and the '
                         'automaton disagrees with the engine there' % (len(idx), sorted(tr['approx'])))
    return idx
