"""C06 - times are never rounded down: decimal rounding, formatting and parsing agree.

(a) TLC checks the transcribed algorithms (TimeText!RoundUpMech / FormatMech) against the
    arithmetic definitions on the whole reduced-alphabet domain (MC_TimeText).
(b) the real round_up_str_num / format_seconds_as_time / parse_hms are swept over the same
    domain plus seeded full-alphabet strings, the 0.001 s grid (carry classes and a stride up to
    100 h), floats with arithmetic residue, and junk text.
(c) Trace_TimeText.tla judges every observation: RoundUpOK, FormatFail, ParseFail, ParseTotalFail.
"""
import re, random, itertools
from fractions import Fraction
from multiprocessing import Pool
from . import common
from .common import Report, Scratch, MachineryError

INT_PARTS = ['', '0', '9', '00', '09', '10', '99', '123', '999', '0999', '9999', '1999', '4500']
_NUM = re.compile(r'^(\d*)(\.?)(\d*)$')
_TIME = re.compile(r'^(\d+)(?::(\d+))?(?::(\d+))?(?:(\.)(\d*))?$')


def D(s):
    return [int(c) for c in s]


def parse_numeral(txt):
    m = _NUM.match(txt) if isinstance(txt, str) else None
    if not m or (m.group(1) == '' and m.group(3) == ''):
        return {'ok': False, 'ip': [], 'fp': [], 'dot': False, 'text': repr(txt)[:40]}
    return {'ok': True, 'ip': D(m.group(1)), 'fp': D(m.group(3)), 'dot': m.group(2) == '.'}


def ru_record(ip, fp, dot, prec, fn):
    s = ip + ('.' if dot else '') + fp
    try:
        out = parse_numeral(fn(s, prec))
    except Exception as e:
        out = {'ok': False, 'ip': [], 'fp': [], 'dot': False, 'text': 'exc:' + type(e).__name__}
    return {'k': 'ru', 'ip': D(ip), 'fp': D(fp), 'dot': dot, 'prec': prec, 'out': out, 's': s}


def ft_record(x, prec, fn, parse=None):
    fx = Fraction(x)
    w = int(fx)
    fr = (fx - w) * 100000
    f5 = int(fr)
    res = fr != f5
    try:
        txt = fn(x, prec)
        m = _TIME.match(txt) if isinstance(txt, str) else None
    except Exception as e:
        txt, m = 'exc:' + type(e).__name__, None
    if not m:
        out = {'ok': False, 'fields': [], 'widths': [], 'fd': [], 'dot': False, 'text': repr(txt)[:40]}
    else:
        fs = [g for g in m.group(1, 2, 3) if g is not None]
        out = {'ok': True, 'fields': [int(g) for g in fs], 'widths': [len(g) for g in fs],
               'fd': D(m.group(5) or ''), 'dot': m.group(4) == '.'}
    # "parses back": the library's own parse_hms on the formatted text
    out['pb'] = ph_out(parse, txt) if (parse is not None and isinstance(txt, str) and m) else {'t': 'none', 'w': 0, 'micro': 0}
    return {'k': 'ft', 'w': w, 'f5': f5, 'res': res, 'prec': prec, 'out': out, 'x': repr(x)}


def ph_out(fn, text):
    try:
        v = fn(text)
    except Exception as e:
        # "raises ValueError, nothing else": a subclass of ValueError is a ValueError
        return {'t': 'exc:' + ('ValueError' if isinstance(e, ValueError) else type(e).__name__), 'w': 0, 'micro': 0}
    if isinstance(v, bool) or not isinstance(v, (int, float)):
        return {'t': 'other:' + type(v).__name__, 'w': 0, 'micro': 0}
    if isinstance(v, float) and (v != v or v in (float('inf'), float('-inf'))):
        return {'t': 'float', 'w': 0, 'micro': 0, 'nonfinite': True}
    fx = Fraction(v)
    if abs(fx) > 2000000000:
        return {'t': 'int' if isinstance(v, int) else 'float', 'w': 0, 'micro': 0, 'huge': True}
    w = int(fx) if fx >= 0 else -int(-fx)
    micro = int(abs(fx - w) * 1000000)
    return {'t': 'int' if isinstance(v, int) else 'float', 'w': w, 'micro': micro}


def _work(job):
    common.use_repo()
    from athlib.utils import round_up_str_num, format_seconds_as_time, parse_hms
    kind, items = job
    out = []
    if kind == 'ru':
        for ip, fp, dot, prec in items:
            out.append(ru_record(ip, fp, dot, prec, round_up_str_num))
    elif kind == 'ft':
        for x, prec in items:
            out.append(ft_record(x, prec, format_seconds_as_time, parse_hms))
    elif kind == 'ph':
        for fields, sep in items:
            text = sep.join(fields)
            nf = []
            for f in fields:
                m = _NUM.match(f)
                nf.append({'ip': D(m.group(1)), 'fp': D(m.group(3)), 'dot': m.group(2) == '.'})
            out.append({'k': 'ph', 'fields': nf, 'out': ph_out(parse_hms, text), 'text': text})
    else:
        for text in items:
            out.append({'k': 'pj', 'out': ph_out(parse_hms, text), 'text': text[:60]})
    return out


def domain(quick, rng):
    jobs = []
    alpha = '059' if quick else '0159'
    maxf = 7 if quick else 7
    fracs = ['']
    for n in range(1, maxf + 1):
        fracs += [''.join(t) for t in itertools.product(alpha, repeat=n)]
    ru = [(ip, fp, True, prec) for ip in INT_PARTS for fp in fracs for prec in range(6) if ip or fp]
    ru += [(ip, '', False, prec) for ip in INT_PARTS if ip for prec in range(6)]
    for _ in range(20000 if quick else 200000):
        ru.append((''.join(rng.choice('0123456789') for _ in range(rng.randint(0, 4))),
                   ''.join(rng.choice('0123456789') for _ in range(rng.randint(0, 7))), True, rng.randint(0, 5)))
    ru = [x for x in ru if x[0] or x[1]]
    jobs += [('ru', c) for c in chunks(ru, 8000)]
    # durations
    ft = []
    for h in (0, 1, 9, 10, 99):
        for m in (0, 1, 58, 59):
            for s in (0, 1, 58, 59):
                base = h * 3600 + m * 60 + s
                for ms in (range(0, 1000) if not quick else list(range(0, 1000, 7)) + [1, 9, 99, 499, 500, 501, 990, 991, 999]):
                    x = (base * 1000 + ms) / 1000.0
                    for prec in range(4):
                        ft.append((x, prec))
    stride = 9973 if quick else 997
    for ms in range(0, 360000000, stride):
        ft.append((ms / 1000.0, (ms // stride) % 4))
    # floats with arithmetic residue
    grid = [0.1, 0.2, 0.3, 0.7, 1.1, 2.675, 59.999, 12.345, 0.001, 0.007, 3599.9, 65.0, 0.999]
    for a in grid:
        for b in grid:
            for prec in range(4):
                ft.append((a + b, prec))
                ft.append((a * 3, prec))
                ft.append((a * b, prec))
    for base in (0, 1, 59, 60, 65, 3599, 3600, 86399, 359999):
        for k in range(1, 53):
            for prec in range(4):
                ft.append((base + 2.0 ** -k, prec))
        for e in range(4, 17):
            for prec in range(4):
                ft.append((base + 10.0 ** -e, prec))
    # ... and residue that leaves the value just BELOW a whole second / minute / hour (0.7 + 0.2 + 0.1, 4.35 * 100): the
    # integer part is one short and the first five decimals are all nines, so rounding up has to carry into the seconds,
    # minutes and hours (seed C06-h: the fraction read off a '%.10f' rendering, the carry into the integer digits lost)
    for base in (1, 2, 59, 60, 61, 435, 3599, 3600, 3601, 86399, 86400, 360000):
        for k in range(18, 53):
            if base - 2.0 ** -k < base:
                for prec in range(4):
                    ft.append((base - 2.0 ** -k, prec))
        for e in range(6, 17):
            if base - 10.0 ** -e < base:
                for prec in range(4):
                    ft.append((base - 10.0 ** -e, prec))
    for a in grid:
        for b in grid:
            for c in (0.1, 0.7, 59.999, 3599.9):
                ft.append((a + b + c, (len(ft)) % 4))
        for mul in (10, 60, 100, 1000):
            for prec in range(4):
                ft.append((a * mul, prec))
    for a in (4.35, 1.15, 2.675, 0.57, 0.58, 1.13, 8.03, 35.99, 9.95, 16.35):
        for mul in (100, 1000, 60):
            for prec in range(4):
                ft.append((a * mul, prec))
    for x in (0, 1, 59, 60, 3600, 86400, 359999):     # ints are accepted too
        for prec in range(4):
            ft.append((x, prec))
    jobs += [('ft', c) for c in chunks(ft, 8000)]
    # h:m:s strings
    nums = ['0', '1', '9', '00', '05', '59', '60', '99', '1.5', '0.0', '59.99', '9.123456', '10.', '.5', '007', '123']
    ph = []
    for n in (1, 2, 3):
        for fs in itertools.product(nums if n < 3 else nums[:11], repeat=n):
            for sep in ':;':
                if n == 1 and sep == ';':
                    continue
                ph.append((list(fs), sep))
    jobs += [('ph', c) for c in chunks(ph, 4000)]
    junk = ['', ' ', ':', ';', '::', '1:', ':1', '1::2', 'abc', '1:2:3:4', '1;2:3', '1:2;3', '-1', '-1:30', '+5', '1e3', '1E-3',
            'inf', 'nan', '-inf', 'Infinity', '1_0', '١٢', '１２:３０', ' 12 ', '12 :30', '1,5', '1:2,5', '0x10', '1.2.3',
            '1:1.2.3', 'None', 'True', '\n', '12\n', '1:2\n', '\x00', '1\x00', 'é', '12:é', '9' * 400, '9' * 5000, '1:' + '9' * 5000,
            '.', '1:.', '.:.', '1e400', '1:1e400', '--1', '1:-0', 'nan:1', 'inf:inf', '1;', ';;', ';1;', '  ;  ', '1 ; 2']
    # what the repository's own tests feed to the three functions
    cor = common.suite_corpus()
    ru_c, ft_c, ph_c = [], [], []
    for c in cor.get('athlib.utils.round_up_str_num', []):
        a, k = c.get('a', []), c.get('k', {})
        prec = k.get('precision', k.get('prec', a[1] if len(a) > 1 else None))
        m = _NUM.match(a[0]) if a and isinstance(a[0], str) else None
        if m and isinstance(prec, int) and 0 <= prec <= 5 and (m.group(1) or m.group(3)) and len(m.group(1)) <= 6 and len(m.group(3)) <= 12:
            ru_c.append((m.group(1), m.group(3), m.group(2) == '.', prec))
    for c in cor.get('athlib.utils.format_seconds_as_time', []):
        a, k = c.get('a', []), c.get('k', {})
        prec = k.get('prec', a[1] if len(a) > 1 else 2)
        if a and isinstance(a[0], (int, float)) and not isinstance(a[0], bool) and 0 <= a[0] < 360000 and isinstance(prec, int) and 0 <= prec <= 3:
            ft_c += [(a[0], p_) for p_ in range(4)]
    for c in cor.get('athlib.utils.parse_hms', []) + cor.get('athlib.utils.str2num', []):
        a = c.get('a', [])
        if a and isinstance(a[0], str):
            t = a[0]
            sep = ':' if ':' in t else ';' if ';' in t else ':'
            fs = t.split(sep)
            if 1 <= len(fs) <= 3 and all(_NUM.match(f) and (f.strip('.') != '') and len(f) <= 12 for f in fs) and (';' not in t or ':' not in t):
                ph_c.append((fs, sep))
            else:
                junk.append(t)
    if ru_c:
        jobs.append(('ru', sorted(set(ru_c))))
    if ft_c:
        jobs.append(('ft', sorted(set(ft_c))))
    if ph_c:
        jobs.append(('ph', [list(x) for x in {(tuple(f), s_) for f, s_ in ph_c}] and [(list(f), s_) for f, s_ in sorted({(tuple(f), s_) for f, s_ in ph_c})]))
    chars = '0123456789:;.,-+eE _abnif\n '
    for _ in range(3000 if quick else 30000):
        junk.append(''.join(rng.choice(chars) for _ in range(rng.randint(0, 9))))
    jobs += [('pj', c) for c in chunks(junk, 4000)]
    return jobs


def chunks(lst, n):
    return [lst[i:i + n] for i in range(0, len(lst), n)]


def run(tier):
    rep = Report('C06', tier, 'model_checking')
    quick = tier == 'quick'
    rng = random.Random(common.seed() * 13 + 6)
    with Scratch('C06') as sc:
        specdir = common.prepare_spec_dir(sc)
        for cfg in ('MC_TimeText_quick.cfg' if quick else 'MC_TimeText_thorough.cfg', 'MC_TimeText_format.cfg'):
            r = common.run_tlc(specdir, 'MC_TimeText', cfg, heap='6g')
            if r.violated:
                raise MachineryError('TimeText mechanism disagrees with the arithmetic definition (%s, %s)' % (cfg, r.violated))
            rep.absorb_tlc(r)
        jobs = domain(quick, rng)
        with Pool(common.NCPU) as pool:
            recs = [x for part in pool.map(_work, jobs) for x in part]
        rep.count('evaluations', len(recs))
        kinds = {}
        for x in recs:
            kinds[x['k']] = kinds.get(x['k'], 0) + 1
        rep.setcov('observations', kinds)
        for k in ('ru', 'ft', 'ph', 'pj'):
            if kinds.get(k, 0) < 100:
                raise MachineryError('vacuity guard: too few %s observations' % k)
        slim = [{k: v for k, v in x.items() if k not in ('s', 'x', 'text')} for x in recs]
        reports, outs = common.validate_records(specdir, sc, 'Trace_TimeText', slim)
        for r in outs:
            rep.absorb_tlc(r, traces=1)
        for pr in reports:
            x = recs[pr['index']]
            inp = x.get('s', x.get('x', x.get('text')))
            if pr['kind'] == 'drift':
                rep.add_drift('%s on %s %r prec=%s -> %s' % (pr['clauses'], x['k'], inp, x.get('prec'), x['out']))
                continue
            for cl in pr['clauses']:
                rep.add_violation('%s:%s' % (cl, sig_of(x)), '%s: %s(%r%s) -> %s' % (
                    cl, {'ru': 'round_up_str_num', 'ft': 'format_seconds_as_time'}.get(x['k'], 'parse_hms'), inp,
                    (', %d' % x['prec']) if 'prec' in x else '', x['out'].get('text', x['out'])),
                    {'fn': x['k'], 'input': inp, 'prec': x.get('prec')})
        rep.setcov('distinct_nontrivial', len({(x['k'], str(x.get('s', x.get('x', x.get('text')))), x.get('prec')) for x in recs}))
        rep.setcov('rule', 'distinct (function, input, precision) observations')
        for i in (0, len(recs) // 3, 2 * len(recs) // 3, len(recs) - 1):
            x = recs[i]
            rep.sample({'fn': x['k'], 'input': x.get('s', x.get('x', x.get('text'))), 'prec': x.get('prec'), 'out': x['out']})
    rep.assumptions += ['durations are logged exactly (fractions.Fraction of the double) as whole seconds, first five decimals and a residue flag',
                        'reduced digit alphabet for the exhaustive part; seeded full-alphabet strings in addition']
    return rep.finish()


def sig_of(x):
    if x['k'] == 'ru':
        return 'prec=%d:%s' % (x['prec'], 'emptyint' if not x['ip'] else 'int')
    if x['k'] == 'ft':
        return 'prec=%d:%s' % (x['prec'], 'residue' if x['res'] else 'grid')
    return x['out']['t']


def replay(rec):
    common.use_repo()
    from athlib import utils
    r = rec['replay']
    if r['fn'] == 'ru':
        print('round_up_str_num(%r, %r) -> %r' % (r['input'], r['prec'], utils.round_up_str_num(r['input'], r['prec'])))
    elif r['fn'] == 'ft':
        x = eval(r['input'])
        print('format_seconds_as_time(%r, %r) -> %r' % (x, r['prec'], utils.format_seconds_as_time(x, r['prec'])))
    else:
        try:
            print('parse_hms(%r) -> %r' % (r['input'], utils.parse_hms(r['input'])))
        except Exception as e:
            print('parse_hms(%r) raised %s' % (r['input'], type(e).__name__))
    return 0
