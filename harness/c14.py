from . import agegrade


def run(tier):
    return agegrade.run14(tier)


def replay(rec):
    return agegrade.replay(rec)
