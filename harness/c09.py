from . import athlon


def run(tier):
    return athlon.run('C09', tier)


def replay(rec):
    return athlon.replay(rec)
