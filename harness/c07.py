"""C07 - event-code normalisation yields one canonical, valid, stable spelling.

The language of PAT_EVENT_CODE is generated from TLC's product automaton (harness/lang.py: a witness
of every accepting state and transition over a refined alphabet), extended with realistic codes,
their case / spacing / suffix / trailing-zero variants and near-miss mutations.  For every string the
real check_event_code and normalize_event_code are executed; Trace_CodeText.tla decides membership by
running the NFAs itself and checks: accepted => normal form accepted, whitespace-free, stable, same
families; non-codes refused with ValueError; all accepted spellings of a variant group normalise to
the identical code."""
import random
from . import common, lang
from .common import Report, Scratch, MachineryError


def observe(s, check, norm):
    rec = {'k': 'code', 's': lang.cps(s), 'chk': bool(check(s))}
    try:
        n = norm(s)
        rec['out'] = 'ok' if isinstance(n, str) else 'other'
        n = n if isinstance(n, str) else ''
    except Exception as e:
        # "refused with ValueError": a subclass of ValueError is a ValueError
        rec['out'] = 'ValueError' if isinstance(e, ValueError) else type(e).__name__
        n = ''
    rec['n'] = lang.cps(n)
    rec['chkn'] = bool(check(n)) if rec['out'] == 'ok' else False
    try:
        nn = norm(n) if rec['out'] == 'ok' else ''
        rec['nok'] = True
    except Exception:
        nn, rec['nok'] = '', False
    rec['nn'] = lang.cps(nn)
    return rec, n


def run(tier):
    rep = Report('C07', tier, 'model_checking')
    quick = tier == 'quick'
    rng = random.Random(common.seed() * 29 + 7)
    with Scratch('C07') as sc:
        tr, specdir, codes, near, pats = lang.generate(sc, rep)
        common.use_repo()
        from athlib import check_event_code, normalize_event_code
        base = set(codes) | set(lang.REALISTIC)
        # numbers longer than the automaton's loop unrolling (WT10.0kg, 4x12.5K, 110H91.4cm ...)
        for c in sorted(base):
            if any(ch.isdigit() for ch in c) and (c in lang.REALISTIC or len(c) <= (6 if quick else 12)):
                base.update(lang.digit_variants(c))
        base = sorted(base)
        rep.setcov('language', dict(automaton_witnesses=len(codes), near_miss_witnesses=len(near), realistic=len(lang.REALISTIC)))
        strings, groups = [], []
        seen = {}

        def add(s):
            if s not in seen:
                seen[s] = len(strings)
                strings.append(s)
            return seen[s]
        for c in base:
            vs = lang.variants(c, rng)
            if not quick or len(c) <= 12 or c in lang.REALISTIC:
                groups.append([add(v) for v in vs])
            else:
                add(c)
        alphabet = list('0123456789HhKkMmxXsScC. \tGgWwTtJjPpLlDdRrEeYy:')
        for c in near:
            add(c)
        for c in base[::2 if quick else 1]:
            for m in lang.mutations(c, rng, alphabet):
                add(m)
        recs, norms = [], []
        for s in strings:
            r, n = observe(s, check_event_code, normalize_event_code)
            recs.append(r)
            norms.append(n)
        ngroup = 0
        for g in groups:
            members = [lang.cps(norms[i]) for i in g if recs[i]['chk'] and recs[i]['out'] == 'ok']
            if len(members) > 1:
                recs.append({'k': 'group', 'members': members, 'idx': [i for i in g if recs[i]['chk'] and recs[i]['out'] == 'ok']})
                ngroup += 1
        rep.count('evaluations', len(strings) * 4)
        slim = [{k: v for k, v in x.items() if k != 'idx'} for x in recs]
        reports, outs = common.validate_records(specdir, sc, 'Trace_CodeText', slim, timeout=3000)
        for r in outs:
            rep.absorb_tlc(r, traces=1)
        accepted = sum(1 for x in recs if x['k'] == 'code' and x['chk'])
        rep.setcov('strings', dict(total=len(strings), accepted_codes=accepted, refused=len(strings) - accepted, variant_groups=ngroup))
        if accepted < 500 or ngroup < 50:
            raise MachineryError('vacuity guard: too few accepted codes / variant groups (%d, %d)' % (accepted, ngroup))
        drifted = lang.drifted(tr, reports, rep)
        for pr in reports:
            x = recs[pr['index']]
            if pr['kind'] == 'drift' or pr['index'] in drifted:
                continue
            for cl in pr['clauses']:
                if x['k'] == 'group':
                    sp = [strings[i] for i in x['idx']]
                    nf = sorted({norms[i] for i in x['idx']})
                    rep.add_violation('%s:%s' % (cl, fam_sig(nf[0])), '%s: spellings %s normalise to %s' % (cl, sp[:8], nf),
                                      {'strings': sp})
                else:
                    s = strings[pr['index']]
                    rep.add_violation('%s:%s' % (cl, fam_sig(s)), '%s: %r -> %s %r' % (cl, s, x['out'], norms[pr['index']]), {'strings': [s]})
        rep.setcov('distinct_nontrivial', accepted)
        rep.setcov('rule', 'distinct strings accepted as event codes (each normalised and re-checked)')
        for s in (strings[0], strings[len(strings) // 2], strings[-1]):
            rep.sample({'string': s, 'normalised': norms[seen[s]], 'outcome': recs[seen[s]]['out']})
    rep.assumptions += ['membership is decided by TLC running the translated NFAs (bound to re in C04 and spot-checked here)',
                        'variant groups are built by construction (case, spacing, k/kg/g suffix, trailing zeros of weights / hurdle specifications)']
    return rep.finish()


def fam_sig(s):
    import re
    m = re.match(r'\s*\d*[xX]?\d*\.?\d*\s*([A-Za-z]*)', s)
    return (m.group(1).upper()[:4] if m and m.group(1) else 'NUM')


def replay(rec):
    common.use_repo()
    from athlib import check_event_code, normalize_event_code
    for s in rec['replay']['strings']:
        try:
            n = normalize_event_code(s)
            print('  %r: accepted=%s normalised=%r accepted(normal form)=%s' % (s, bool(check_event_code(s)), n, bool(check_event_code(n))))
        except Exception as e:
            print('  %r: accepted=%s normalise raised %s' % (s, bool(check_event_code(s)), type(e).__name__))
    return 0
