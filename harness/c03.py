from . import hjcheck


def run(tier):
    return hjcheck.run('C03', tier)


def replay(rec):
    return hjcheck.replay(rec)
