"""Engine for C11 (and the junior part of C05): sweeps of tyrving_score / qkids_score /
sportshall_score / bulgarian_score, judged by Trace_Junior.tla against the pinned published tables."""
import json, os, random
from multiprocessing import Pool
from . import common
from .common import Report, Scratch, MachineryError

C11_CLAUSES = {'points_differ_from_published_table', 'raised_or_not_integer', 'scored_without_published_table',
               'table_not_ordered', 'table_entry_unreachable', 'table_key_not_normalised_event_code'}
C05_CLAUSES = {'better_mark_scores_fewer_points', 'points_out_of_bounds', 'hand_timed_scores_more_than_electronic',
               'raised_or_not_integer'}


def ref():
    with open(os.path.join(common.REFDATA, 'junior.json')) as f:
        return json.load(f)


def enc(v):
    if isinstance(v, bool) or not isinstance(v, int):
        return -200
    return v


def call(fn, *a):
    try:
        return enc(fn(*a))
    except (ValueError, KeyError, AssertionError):
        return -1
    except Exception:
        return -100


def fmt(c, form):
    """centi-mark -> the argument in the given documented input form (None = form not applicable)."""
    if form == 'text':
        return '%d.%02d' % (c // 100, c % 100)
    if form == 'num':
        return c / 100.0
    if form == 'int':
        return c // 100 if c % 100 == 0 else None
    if form == 'hms':
        if c < 6000:
            return None
        m, s = divmod(c, 6000)
        return '%d:%02d.%02d' % (m, s // 100, s % 100)
    if form == 'hand':
        return '%d.%d' % (c // 100, (c % 100) // 10) if c % 10 == 0 else None
    if form == 'comma':           # decimal comma, as typed on many keyboards: optional (may be refused)
        return '%d,%02d' % (c // 100, c % 100)
    if form == 'hmscomma':
        if c < 6000:
            return None
        m, s = divmod(c, 6000)
        return '%d:%02d,%02d' % (m, s // 100, s % 100)
    if form == 'short':           # natural text without trailing zeros ('2.8', '68')
        t = '%d.%02d' % (c // 100, c % 100)
        return t.rstrip('0').rstrip('.') if c % 10 == 0 else None
    raise ValueError(form)


# spellings a function may refuse; when it does accept one, the answer is the one of the mark it spells
OPTIONAL_FORMS = ('comma', 'hmscomma')


def _job(job):
    common.use_repo()
    import athlib
    sys_, key, age, form, marks = job
    g = ev = ct = None
    if sys_ == 'tyrving':
        g, ev = key.split('|')
        fn = lambda v: athlib.tyrving_score(g, age, ev, v)
    elif sys_ == 'qkids':
        ct, ev = key.split('|')
        fn = lambda v: athlib.qkids_score(ct, ev, v)
    elif sys_ == 'sportshall':
        fn = lambda v: athlib.sportshall_score(key, v)
    else:
        ag, gg, ev = key[:3], key[3], key[4:]
        fn = lambda v: athlib.bulgarian_score(ag, gg, ev, v)
    segs, prev, n = [], None, 0
    hand = form == 'hand'

    def interfere(c, i):
        # results discarded: the same and the neighbouring marks in the other input forms, another age, the other
        # gender - the points of a mark are a function of the arguments of that call alone
        for f2 in ('text', 'num', 'hand', 'hms', 'int', 'short', 'comma'):
            if f2 != form:
                for cc in (c, c + 1 - 2 * (i % 2)):
                    v2 = fmt(cc, f2)
                    if v2 is not None:
                        call(fn, v2)
        if sys_ == 'tyrving':
            v2 = fmt(c, 'text')
            for a2, g2 in ((age + 1, g), (age - 1, g), (age, 'F' if g == 'M' else 'M')):
                call(lambda v_: athlib.tyrving_score(g2, a2, ev, v_), v2)
        # ... and calls the function refuses (rule 4: a refusal must leave nothing behind either): junk marks, an unknown
        # event / gender / competition type / age with the same mark
        vt = fmt(c, 'text')
        for junk in ('', 'abc', '1:2:3:4', None, '-1', 'nan'):
            call(fn, junk)
        if sys_ == 'tyrving':
            call(lambda v_: athlib.tyrving_score(g, age, 'NOSUCH', v_), vt)
            call(lambda v_: athlib.tyrving_score('X', age, ev, v_), vt)
            call(lambda v_: athlib.tyrving_score(g, 99, ev, v_), vt)
            call(lambda v_: athlib.tyrving_score(g, 'x', ev, v_), vt)
        elif sys_ == 'qkids':
            call(lambda v_: athlib.qkids_score(ct, 'NOSUCH', v_), vt)
            call(lambda v_: athlib.qkids_score('NOSUCH', ev, v_), vt)
        elif sys_ == 'sportshall':
            call(lambda v_: athlib.sportshall_score('NOSUCH', v_), vt)
        else:
            call(lambda v_: athlib.bulgarian_score(ag, gg, 'NOSUCH', v_), vt)
            call(lambda v_: athlib.bulgarian_score(ag, 'X', ev, v_), vt)
            call(lambda v_: athlib.bulgarian_score('U99', gg, ev, v_), vt)
    for i, c in enumerate(marks):
        v = fmt(c, form)
        if v is None:
            continue
        if i % 53 == 26:
            interfere(c, i // 53)
        r = call(fn, v)
        n += 1
        cur = [r]
        if hand:
            cur.append(call(fn, fmt(c, 'text')))
            n += 1
        if prev is not None and prev[2:] == cur:
            prev[1] = c
        else:
            prev = [c, c] + cur
            segs.append(prev)
    q = {'sys': sys_, 'key': key, 'age': age or 0, 'manual': hand}
    out = [{'k': 'seg', 'q': q, 'form': form, 'segs': [s[:3] for s in segs], 'n': n, 'opt': form in OPTIONAL_FORMS}]
    if hand:
        out.append({'k': 'hand', 'q': q, 'form': form, 'segs': segs, 'n': 0})
    return out


def marks_for(lo, hi, cap, rng, around=()):
    lo = max(0, lo)
    n = hi - lo + 1
    if n <= cap:
        return list(range(lo, hi + 1))
    step = n // cap + 1
    off = rng.randrange(step)
    m = set(range(lo + off, hi + 1, step))
    for a in around:
        m.update(range(max(lo, a - 12), min(hi, a + 12) + 1))
    return sorted(m)


def jobs_all(quick, rng):
    J = ref()
    cap = 1500 if quick else 30000
    jobs = []
    for key, t in sorted(J['tyrving'].items()):
        nages = len(t['base'] if t['kind'] != 'stav' else t['l0'])
        ages = list(range(t['y0'], t['y0'] + nages))
        for age in [t['y0'] - 1] + ages + [t['y0'] + nages]:
            inside = t['y0'] <= age < t['y0'] + nages
            i = min(max(age - t['y0'], 0), nages - 1)
            if t['kind'] == 'race':
                b = t['base'][i]
                per = t['m'] / 100.0 if t['dist'] <= 500 else t['m'] / 1000.0     # points per centisecond
                lo, hi = int(b - 700 / per), int(b + 1100 / per)
                forms = ['text', 'num', 'hms', 'hand', 'int'] if inside else ['text']
            elif t['kind'] == 'jump':
                b = t['base'][i]
                per = t['m'] / 10.0
                lo, hi = int(b - 1100 / per), int(b + 700 / per)
                forms = ['text', 'num', 'short'] if inside else ['num']
            else:
                b = t['l0'][i]
                per = t['m'][0] / 100.0
                lo, hi = 0, int(b + 500 / per)
                forms = ['text', 'num'] if inside else ['text']
            around = [b] + ([t['l1'][i]] if t['kind'] == 'stav' else [])
            if inside:
                forms = forms + (['comma', 'hmscomma'] if t['kind'] == 'race' else ['comma'])
            for form in forms:
                jobs.append(('tyrving', key, age, form, marks_for(lo, hi, cap if inside else 40, rng, around)))
    for key, t in sorted(J['qkids'].items()):
        hi = t['base'] + 110 * t['step'] if not t['run'] else t['base'] + 30 * t['step']
        lo = t['base'] - 10 * t['step'] if not t['run'] else t['base'] - 110 * t['step']
        for form in (['text', 'num', 'hms', 'int', 'comma', 'hmscomma'] if t['run'] else ['text', 'num', 'short', 'comma']):
            jobs.append(('qkids', key, None, form, marks_for(lo, hi, cap * 2, rng, [t['base']])))
    jobs.append(('qkids', 'QKWL|HJ', None, 'text', [100, 200]))          # no such row
    jobs.append(('qkids', 'NOPE|75', None, 'text', [1000]))
    for key, t in sorted(J['sportshall'].items()):
        a, b = min(t['thr']), max(t['thr'])
        span = 600 if t['inc4'] else 100
        for form in ('text', 'short'):
            # a threshold table: a one-centi slip of one threshold changes one mark, so the text form visits every mark
            jobs.append(('sportshall', key, None, form, marks_for(a - span, b + span, 10 ** 9 if form == 'text' else cap * 4, rng, t['thr'][::8])))
    jobs.append(('sportshall', 'XYZ', None, 'text', [100]))
    for key, t in sorted(J['bulgarian'].items()):
        forms = ['num', 'hms', 'text', 'int'] if t['timed'] else ['num', 'int']
        for form in forms:
            # a per-centi lookup table: every cell is its own case, so the number form visits every mark in both tiers
            jobs.append(('bulgarian', key, None, form, marks_for(t['lo'] - 120, t['hi'] + 120, 10 ** 9 if form == 'num' else cap * 4, rng, [t['lo'], t['hi']])))
    return jobs


def table_records():
    """The live tables, dumped through public behaviour only where possible.  The table objects themselves are reached
    by their module-level names; a table that is no longer kept under its name is not observed (TABLE_NOTES) - the
    sweeps against the pinned published tables do not depend on it."""
    common.use_repo()
    import sys as _s
    import athlib
    from athlib import normalize_event_code, check_event_code
    out = []
    del TABLE_NOTES[:]

    def sportshall():
        sh = _s.modules['athlib.sportshall_score']
        db = sh.load_data()
        for ev, info in sorted(db.items()):
            high = ev in ['SLJ', 'SHJ', 'STJ', 'SP', 'BAL', 'SPB', 'TART', 'OHT', 'CHT', 'JT']
            rows = []
            for p, v in info['perf2points']:
                c = int(round(float(v) * 100))
                rows.append([p, c, call(athlib.sportshall_score, ev, v)])
            yield {'k': 'table', 'sys': 'sportshall', 'key': ev, 'high': high, 'rows': rows,
                   'normkey': _norm_ok(ev, normalize_event_code, check_event_code), 'n': len(rows)}

    def bulgarian():
        bg = _s.modules['athlib.bulgarian_score'].scores
        for key, tb in sorted(bg.items()):
            timed = tb['min'] > tb['max']
            ev = key[4:]
            rows = []
            xs = sorted(x for x in tb if isinstance(x, int))
            # one row per step of the table (first mark of every points value)
            steps = {}
            for x in (xs if not timed else xs[::-1]):
                steps.setdefault(tb[x], x)
            for p, x in sorted(steps.items()):
                rows.append([p, x, call(athlib.bulgarian_score, key[:3], key[3], ev, x / 100.0)])
            yield {'k': 'table', 'sys': 'bulgarian', 'key': key, 'high': not timed, 'rows': rows,
                   'normkey': _norm_ok(ev, normalize_event_code, check_event_code), 'n': len(rows)}

    def tyrving():
        ty = _s.modules['athlib.tyrving_score']._tyrvingTables
        for g in sorted(ty):
            for ev in sorted(ty[g]):
                yield {'k': 'table', 'sys': 'tyrving', 'key': '%s|%s' % (g, ev), 'high': True, 'rows': [],
                       'normkey': _norm_ok(ev, normalize_event_code, check_event_code), 'n': 1}

    def qkids():
        qk = _s.modules['athlib.qkids_score']._qkidsTables
        for ct in sorted(qk):
            for ev in sorted(qk[ct]):
                yield {'k': 'table', 'sys': 'qkids', 'key': '%s|%s' % (ct, ev), 'high': True, 'rows': [],
                       'normkey': _norm_ok(ev, normalize_event_code, check_event_code), 'n': 1}
    for name, gen in (('sportshall', sportshall), ('bulgarian', bulgarian), ('tyrving', tyrving), ('qkids', qkids)):
        try:
            out += list(gen())
        except Exception as e:
            TABLE_NOTES.append('the live %s table could not be read under its module-level name (%s): its order / reachability / '
                               'key clauses are not observed in this run' % (name, type(e).__name__))
    return out


TABLE_NOTES = []


def _norm_ok(ev, norm, check):
    try:
        return bool(check(ev)) and norm(ev) == ev
    except Exception:
        return False


def sweep(quick, rng):
    jobs = jobs_all(quick, rng)
    with Pool(common.NCPU) as pool:
        recs = [x for part in pool.map(_job, jobs, chunksize=4) for x in part]
    return recs


def run(pid, tier):
    rep = Report(pid, tier, 'model_checking')
    quick = tier == 'quick'
    rng = random.Random(common.seed() * 53 + int(pid[1:]))
    want = {'C11': C11_CLAUSES}[pid]
    with Scratch(pid) as sc:
        specdir = common.prepare_spec_dir(sc)
        r = common.run_tlc(specdir, 'MC_Junior', 'MC_Junior.cfg', heap='6g', timeout=3000)
        if r.violated:
            raise MachineryError('the junior-scoring reference violates %s' % r.violated)
        rep.absorb_tlc(r)
        recs = sweep(quick, rng) + table_records()
        rep.notes += TABLE_NOTES
        judge(rep, specdir, sc, recs, want)
    rep.assumptions += ['published tables = pinned snapshot refdata/junior.json (pinned commit + corrections recorded as fix: commits)',
                        'documented input forms per function: Tyrving/QuadKids text, number, m:ss.xx; Sportshall text; Bulgarian numbers and m:ss.xx for timed events']
    return rep.finish()


def judge(rep, specdir, sc, recs, want):
    rep.count('evaluations', sum(x['n'] for x in recs))
    slim = [{k: v for k, v in x.items() if k not in ('n', 'form')} for x in recs]
    reports, outs = common.validate_records(specdir, sc, 'Trace_Junior', slim, timeout=3000)
    for r in outs:
        rep.absorb_tlc(r, traces=1)
    for pr in reports:
        x = recs[pr['index']]
        at = pr.get('at') or []
        for cl in pr['clauses']:
            if cl not in want:
                continue
            if x['k'] == 'table':
                sig = '%s:%s:%s' % (cl, x['sys'], x['key'])
                what = '%s: live %s table %s, first offending row (points, threshold, observed score) %s' % (cl, x['sys'], x['key'], at)
                replay = {'sys': x['sys'], 'key': x['key'], 'age': 0, 'form': 'text', 'c': at[1] if at else 0}
            else:
                q = x['q']
                sig = '%s:%s:%s:%s' % (cl, q['sys'], x['form'], q['key'] if q['sys'] != 'tyrving' else q['key'].split('|')[1])
                what = '%s: %s %s age=%s form=%s, first differing run (lo, hi, observed...) %s' % (cl, q['sys'], q['key'], q['age'], x['form'], at)
                replay = {'sys': q['sys'], 'key': q['key'], 'age': q['age'], 'form': x['form'], 'c': at[0] if at else 0}
            rep.add_violation(sig, what, replay)
    kinds = {}
    for x in recs:
        kk = x['k'] + ':' + (x.get('sys') or x['q']['sys'])
        kinds[kk] = kinds.get(kk, 0) + 1
    rep.setcov('records', kinds)
    rep.setcov('distinct_nontrivial', sum(len(x.get('segs', x.get('rows', []))) for x in recs))
    rep.setcov('rule', 'distinct runs of constant points along the mark axis per (table, age, input form) / table rows')
    for x in recs[:1] + recs[len(recs) // 2:len(recs) // 2 + 1] + recs[-1:]:
        y = {k: v for k, v in x.items() if k != 'n'}
        for f in ('segs', 'rows'):
            if f in y:
                y[f] = y[f][:4]
        rep.sample(y)


def replay(rec):
    r = rec['replay']
    for c in range(r['c'] - 1, r['c'] + 2):
        for form in (r['form'], 'text', 'num'):
            v = fmt(c, form)
            if v is None:
                continue
            res = _job((r['sys'], r['key'], r['age'], form, [c]))[0]
            print('  %s %s age=%s %r (%s) -> %s' % (r['sys'], r['key'], r['age'], v, form, res['segs']))
    return 0
