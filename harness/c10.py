"""C10 - every valid event code can be sorted, measured and classified without error.

The language generated from TLC's product automaton (harness/lang.py) plus realistic codes and case
variants is fed to discipline_sort_key, text_discipline_sort_key, sort_by_discipline, get_distance,
get_duration_event_time, unit_name and AgeGrader.event_code_to_kind; Trace_SortKey.tla (SortKey.tla on
CodeText.tla) checks totality, the category order, the stated distances, relay distances, text-key /
tuple-key order agreement over all adjacent pairs of the sorted list, the conventional field order
and the sorter on lists with repeated and missing disciplines."""
import random, sys
from . import common, lang
from .common import Report, Scratch, MachineryError


def wrap(fn, s, conv):
    try:
        return conv(fn(s))
    except Exception as e:
        return {'ok': False, 'exc': type(e).__name__}


def key_conv(k):
    if not (isinstance(k, tuple) and len(k) == 3 and isinstance(k[0], int) and isinstance(k[1], int) and isinstance(k[2], str)):
        return {'ok': False, 'exc': 'shape'}
    if abs(k[1]) > 2000000000:
        return {'ok': True, 'cat': k[0], 'num': 2000000000, 'txt': lang.cps(k[2])}
    return {'ok': True, 'cat': k[0], 'num': k[1], 'txt': lang.cps(k[2])}


def run(tier):
    rep = Report('C10', tier, 'model_checking')
    quick = tier == 'quick'
    rng = random.Random(common.seed() * 37 + 10)
    with Scratch('C10') as sc:
        tr, specdir, codes, near, pats = lang.generate(sc, rep)
        common.use_repo()
        import athlib
        from athlib import utils
        from athlib.wma.agegrader import AgeGrader
        unit_name = sys.modules['athlib.athlon_score'].unit_name
        strings = []
        seen = set()
        for c in sorted(set(codes) | set(lang.REALISTIC)):
            for v in [c] + ([c.lower(), c.upper(), c[:1] + ' ' + c[1:]] if c in lang.REALISTIC or not quick else []):
                if v not in seen:
                    seen.add(v)
                    strings.append(v)
        # numbers longer than the automaton's loop unrolling: 4x12.5K, 110H, 10.55K ...
        base = list(strings)
        for c in base:
            if any(ch.isdigit() for ch in c) and (not quick or c in lang.REALISTIC or len(c) <= 7):
                for v in lang.digit_variants(c):
                    if v not in seen:
                        seen.add(v)
                        strings.append(v)
        for c in near[::20]:
            if c not in seen:
                seen.add(c)
                strings.append(c)
        recs = []
        num = lambda v: {'ok': True, 'v': -1 if v is None else int(v)} if (v is None or isinstance(v, int)) else {'ok': False, 'exc': 'type'}
        txt = lambda v: {'ok': True, 'v': v} if isinstance(v, str) else {'ok': False, 'exc': 'type'}
        for s in strings:
            recs.append({'k': 'code', 's': lang.cps(s), 'chk': bool(athlib.check_event_code(s)),
                         'key': wrap(utils.discipline_sort_key, s, key_conv),
                         'tkey': wrap(utils.text_discipline_sort_key, s, lambda t: {'ok': True, 'txt': lang.cps(t)} if isinstance(t, str) else {'ok': False}),
                         'dist': wrap(utils.get_distance, s, num), 'dur': wrap(utils.get_duration_event_time, s, num),
                         'unit': wrap(unit_name, s, txt), 'kind': wrap(AgeGrader.event_code_to_kind, s, txt)})
        rep.count('evaluations', len(strings) * 6)
        ncode = len(recs)
        # ordering clauses: adjacent pairs of the tuple-sorted list (distance below 100 km)
        ok = [(s, r) for s, r in zip(strings, recs) if r['chk'] and r['key'].get('ok') and r['tkey'].get('ok') and r['key']['num'] < 100000]
        ok.sort(key=lambda sr: (sr[1]['key']['cat'], sr[1]['key']['num'], sr[0]))
        for (s1, r1), (s2, r2) in zip(ok, ok[1:]):
            recs.append({'k': 'pair', 'a': {'key': r1['key'], 'tkey': r1['tkey']['txt']}, 'b': {'key': r2['key'], 'tkey': r2['tkey']['txt']},
                         'strings': [s1, s2]})
        npair = len(recs) - ncode
        # conventional field order, in several spellings
        FIELD = ['HJ', 'PV', 'LJ', 'TJ', 'SP', 'DT', 'HT', 'JT']
        for f in (lambda x: x, str.lower, lambda x: x + ('7.26K' if x in ('SP', 'HT') else '1.5K' if x == 'DT' else '800' if x == 'JT' else '')):
            ks = [wrap(utils.discipline_sort_key, f(x), key_conv) for x in FIELD]
            if all(k.get('ok') for k in ks):
                recs.append({'k': 'field', 'keys': ks, 'strings': [f(x) for x in FIELD]})
            else:
                recs.append({'k': 'field', 'keys': [{'ok': True, 'cat': 9, 'num': 0, 'txt': []}] * 2, 'strings': [f(x) for x in FIELD]})
        # the sorter: lists with repeated and missing disciplines, dicts and objects
        valid = [s for s, r in zip(strings, recs) if r['chk']]

        class Obj(object):
            pass
        for i in range(60 if quick else 600):
            n = rng.randint(0, 14)
            items = []
            for _ in range(n):
                d = rng.choice(valid) if rng.random() < 0.8 else rng.choice([None, '', 'ABSENT'])
                if rng.random() < 0.5:
                    items.append({'discipline': d} if d != 'ABSENT' else {'other': 1})
                else:
                    o = Obj()
                    if d != 'ABSENT':
                        o.discipline = d
                    items.append(o)
            if n > 2:
                items.append(items[0])      # a repeated entry
            disc = lambda it: (it.get('discipline') if isinstance(it, dict) else getattr(it, 'discipline', None))
            try:
                out = utils.sort_by_discipline(list(items))
                okk = all(any(o is it for it in items) for o in out)
                inp_k = [key_conv(utils.discipline_sort_key(disc(it))) for it in items]
                out_k = [key_conv(utils.discipline_sort_key(disc(it))) for it in out]
            except Exception:
                okk, inp_k, out_k = False, [], []
            recs.append({'k': 'sort', 'ok': okk, 'inp': inp_k, 'out': out_k, 'strings': [str(disc(it)) for it in items]})
        rep.count('evaluations', len(recs) - ncode)
        slim = [{k: v for k, v in x.items() if k != 'strings'} for x in recs]
        for x in slim:
            for f in ('key', 'tkey', 'dist', 'dur', 'unit', 'kind'):
                if f in x and not x[f].get('ok'):
                    x[f] = {'ok': False, 'cat': 0, 'num': 0, 'txt': [], 'v': 0}
        reports, outs = common.validate_records(specdir, sc, 'Trace_SortKey', slim, timeout=3000)
        for r in outs:
            rep.absorb_tlc(r, traces=1)
        accepted = sum(1 for x in recs[:ncode] if x['chk'])
        rep.setcov('records', dict(codes=ncode, accepted=accepted, adjacent_pairs=npair, sorter_lists=len(recs) - ncode - npair - 3))
        if accepted < 500 or npair < 400:
            raise MachineryError('vacuity guard: too few codes / pairs')
        drifted = lang.drifted(tr, reports, rep)
        for pr in reports:
            x = recs[pr['index']]
            if pr['kind'] == 'drift' or pr['index'] in drifted:
                continue
            for cl in pr['clauses']:
                if x['k'] == 'code':
                    s = strings[pr['index']]
                    rep.add_violation('%s:%s' % (cl, code_class(s, pats)), '%s: %r -> key=%s dist=%s kind=%s' % (
                        cl, s, x['key'], x['dist'], x['kind']), {'strings': [s]})
                else:
                    rep.add_violation('%s:%s' % (cl, x['k']), '%s: %s' % (cl, x['strings'][:10]), {'strings': x['strings']})
        rep.setcov('distinct_nontrivial', accepted)
        rep.setcov('rule', 'distinct accepted event codes (each run through all seven functions)')
        for i in (0, ncode // 2, ncode - 1):
            rep.sample({'code': strings[i], 'key': recs[i]['key'], 'dist': recs[i]['dist'], 'kind': recs[i]['kind']})
    rep.assumptions += ['categories are set-valued where the statement\'s families overlap (R4)',
                        'stated-distance and relay clauses are asserted for ASCII digits only']
    return rep.finish()


def code_class(s, pats):
    order = ['PAT_RELAYS', 'PAT_HURDLES', 'PAT_TRACK', 'PAT_ROAD', 'PAT_JUMPS', 'PAT_THROWS', 'PAT_MULTI', 'PAT_RACES_FOR_DISTANCE',
             'PAT_HIGHSCORING_EVENT', 'PAT_LOWSCORING_EVENT']
    return '+'.join(n[4:] for n in order if pats[n].match(s)) or 'none'


def replay(rec):
    common.use_repo()
    from athlib import utils
    from athlib.wma.agegrader import AgeGrader
    for s in rec['replay']['strings'][:12]:
        row = []
        for fn in (utils.discipline_sort_key, utils.text_discipline_sort_key, utils.get_distance, utils.get_duration_event_time,
                   AgeGrader.event_code_to_kind):
            try:
                row.append(repr(fn(s)))
            except Exception as e:
                row.append('raised ' + type(e).__name__)
        print('  %r: %s' % (s, ' | '.join(row)))
    return 0
