"""Engine for C14 / C15: the five wma_* wrappers, observed as exact bit patterns and judged by
Trace_AgeGrade.tla (AgeGrade.tla)."""
import struct, json, os, random
from multiprocessing import Pool
from . import common
from .common import Report, Scratch, MachineryError

RAISED = [-1, 0, 0]
C14_CLAUSES = {'open_best_differs_from_table', 'factor_at_tabulated_age_differs_from_table', 'age_past_last_column_does_not_use_last_column', 'factor_not_finite_positive', 'open_best_not_finite_positive', 'grade_not_finite_positive',
               'grade_differs_from_standard_over_performance', 'better_performance_does_not_grade_higher',
               'open_best_at_factor_one_does_not_grade_one', 'spelling_changes_result'}
C15_CLAUSES = {'distance_query_raised', 'distance_result_not_finite_positive', 'below_table_not_clamped_to_first_row',
               'beyond_table_not_clamped_to_last_row', 'factor_not_between_neighbouring_events',
               'open_best_not_between_neighbouring_events', 'open_best_does_not_increase_with_distance'}


def bits(x):
    return struct.unpack('>Q', struct.pack('>d', float(x)))[0]


def limbs(x):
    """64-bit pattern of a double as <<21, 21, 22>>-bit limbs; anything else -> RAISED."""
    if isinstance(x, bool) or not isinstance(x, (int, float)):
        return list(RAISED)
    b = bits(x)
    return [b >> 43, (b >> 22) & 0x1FFFFF, b & 0x3FFFFF]


def call(fn, *a, **k):
    try:
        return fn(*a, **k)
    except Exception as e:
        return e


def L(v):
    return list(RAISED) if isinstance(v, Exception) else limbs(v)


def ulps(a, b):
    if isinstance(a, Exception) or isinstance(b, Exception):
        return 1000000
    try:
        return min(abs(bits(a) - bits(b)), 1000000)
    except Exception:
        return 1000000


def tables():
    """The three published tables, read from their data files - not through the graders, whose table handling is under
    test (and without touching the graders' state: the parent process stays pristine for its children)."""
    out = {}
    d = os.path.join(common.REPO, 'athlib', 'wma')
    for name, fn in (('2015', 'wma-data-2015.json'), ('2023', 'wma-data-2023.json'), ('athlon', 'wma-athlons-data.json')):
        with open(os.path.join(d, fn)) as f:
            out[name] = json.load(f)
    return out


def fmt_time(t):
    """seconds -> the text forms the graders accept (m:ss.xx for >= 60 s)"""
    if t < 60:
        return '%.2f' % t
    m, s = divmod(t, 60)
    if m < 60:
        return '%d:%05.2f' % (m, s)
    h, m = divmod(m, 60)
    return '%d:%02d:%05.2f' % (h, m, s)


def _ag_job(job):
    common.use_repo()
    import athlib
    from athlib.utils import parse_hms
    tbl, g, ev, ages2, timed = job[:5]
    lastage = job[5] if len(job) > 5 else None
    # the published row of this event, read from the data file by the parent (never through the grader under test)
    trow = job[6] if len(job) > 6 else None          # {'best': number or None, 'cells': {age: factor}}
    out = []
    flast = None
    if tbl != 'athlon':
        # interference: the other table year is asked first (result discarded) - what a grader answers must not depend
        # on which table another grader has used before
        call(athlib.wma_age_factor, g, 50, ev, year=2023 if int(tbl) == 2015 else 2015)
        call(athlib.wma_world_best, g, ev, year=2023 if int(tbl) == 2015 else 2015)
    if lastage is not None:
        flast = L(call(athlib.wma_athlon_age_factor, g, lastage, ev) if tbl == 'athlon'
                  else call(athlib.wma_age_factor, g, lastage, ev, year=int(tbl)))
    for a2 in ages2:
        age = a2 / 2.0 if a2 % 2 else a2 // 2
        if a2 % 7 == 3:
            # calls the graders refuse, results discarded (rule 4: a refusal must leave nothing behind): unknown gender,
            # unknown event, junk age / performance - on the same shared grader, between the recorded calls
            yr_ = 2023 if tbl == 'athlon' else int(tbl)
            call(athlib.wma_age_factor, 'x', age, ev, year=yr_)
            call(athlib.wma_age_factor, g, age, 'NOSUCH', year=yr_)
            call(athlib.wma_age_factor, g, 'old', ev, year=yr_)
            call(athlib.wma_world_best, 'x', ev, year=yr_)
            call(athlib.wma_world_best, g, 'NOSUCH', year=yr_)
            call(athlib.wma_age_grade, g, age, ev, 'fast', year=yr_)
            call(athlib.wma_age_grade, 'x', age, ev, '10.0', year=yr_)
            call(athlib.wma_athlon_age_factor, 'x', age, ev)
            call(athlib.wma_athlon_age_factor, g, age, 'NOSUCH')
        if tbl != 'athlon' and a2 % 3 == 1:
            # a question about an untabulated distance in between (result discarded): it moves the grader's row scratch, and
            # what the next tabulated question answers must not depend on it (seed C14-i: a one-entry "row already found"
            # memo that the distance search does not invalidate)
            odd = ('7K', '3.5K', '42', '200M', '2400', '11K')[(a2 // 3) % 6]
            call(athlib.wma_world_best, g, odd, year=int(tbl))
            if a2 % 2:
                call(athlib.wma_age_factor, g, age, odd, year=int(tbl))
        if tbl == 'athlon':
            f = call(athlib.wma_athlon_age_factor, g, age, ev)
            b = None
        else:
            yr = int(tbl)
            f = call(athlib.wma_age_factor, g, age, ev, year=yr)
            b = call(athlib.wma_world_best, g, ev, year=yr)
        perfs, atbest = [], list(RAISED)
        if tbl != 'athlon' and not isinstance(b, Exception) and not isinstance(f, Exception) and isinstance(b, (int, float)) and b > 0:
            grid = [0.8, 0.95, 0.99, 1.0, 1.01, 1.1, 1.6] if timed else [0.3, 0.8, 0.99, 1.0, 1.01, 1.2]
            vals = sorted({round(b * k, 2) for k in grid} | {round(b, 2) + 0.01, round(b, 2) - 0.01})
            for v in vals:
                if v <= 0:
                    continue
                arg = fmt_time(v) if timed else v
                pv = parse_hms(arg)
                gr = call(athlib.wma_age_grade, g, age, ev, arg, year=yr)
                try:
                    expect = ((b * 1.0 / f) / pv) if timed else (pv / (b * 1.0 / f))
                except Exception as e:
                    expect = e
                perfs.append([L(gr), ulps(gr, expect)])
            atbest = L(call(athlib.wma_age_grade, g, age, ev, b, year=yr))
        elif tbl == 'athlon' and not isinstance(f, Exception):
            # the combined-events grader has no open bests of its own: only the factor clauses apply
            b = 1.0
        tb = L(float(trow['best'])) if (trow and tbl != 'athlon' and isinstance(trow.get('best'), (int, float)) and trow['best'] > 0) else list(RAISED)
        cell = trow['cells'].get(a2 // 2) if (trow and a2 % 2 == 0) else None
        out.append({'k': 'ag', 'tbl': tbl, 'g': g, 'ev': ev, 'age2': a2, 'timed': timed, 'f': L(f), 'tb': tb,
                    'tf': L(float(cell)) if isinstance(cell, (int, float)) and cell > 0 else list(RAISED),
                    'b': L(b) if b is not None else list(RAISED), 'perfs': perfs, 'atbest': atbest if perfs else L(1.0),
                    'past': bool(lastage is not None and age > lastage), 'flast': flast if flast is not None else list(RAISED),
                    'n': 2 + len(perfs)})
    return out


def covered_ages2(row, ages, extra=20):
    """2*age for every integer and half-integer age whose bracketing columns are non-null, from the first
    non-null column to `extra` years past the last column."""
    fac = [x if (x is not None and x > 0) else None for x in row]     # a 0 entry is a placeholder, not a factor
    out = []
    first = next(i for i, x in enumerate(fac) if x is not None)
    last = max(i for i, x in enumerate(fac) if x is not None)
    for a2 in range(2 * ages[first], 2 * (ages[last] + extra) + 1):
        age = a2 / 2.0
        if age >= ages[last]:
            if last == len(ages) - 1 or age == ages[last]:
                out.append(a2)
            continue
        # bracketing columns
        i = next(k for k in range(len(ages)) if ages[k] >= age)
        lo = i if ages[i] == age else i - 1
        if lo >= 0 and fac[lo] is not None and fac[i] is not None:
            out.append(a2)
    return out


GENDERS = {'m': ['m', 'M', 'male', 'Male', 'MALE'], 'f': ['f', 'F', 'female', 'Female', 'FEMALE']}


def run14(tier):
    rep = Report('C14', tier, 'model_checking')
    quick = tier == 'quick'
    rng = random.Random(common.seed() * 3 + 14)
    T = tables()
    common.use_repo()
    import athlib
    from athlib import check_event_code
    from athlib.wma.agegrader import AgeGrader
    jobs, spjobs = [], []
    for tbl in ('2015', '2023'):
        d = T[tbl]
        ages = d['ages']
        for g in 'mf':
            for row in d[g]:
                ev = row[0]
                timed = AgeGrader.event_code_to_kind(ev) in ('track', 'road')
                a2 = covered_ages2(row[3:], ages)
                if quick:
                    a2 = [x for x in a2 if x % 2 == 0 or x % 14 == 1]
                    a2 = a2[::2] + a2[-3:]
                fac = row[3:]
                lastcol = ages[-1] if (fac[-1] is not None and fac[-1] > 0) else None
                trow = {'best': row[2], 'cells': {ages[i]: fac[i] for i in range(len(ages)) if i < len(fac) and fac[i] is not None}}
                for i in range(0, len(a2), 40):
                    jobs.append((tbl, g, ev, a2[i:i + 40], timed, lastcol, trow))
                spjobs.append((tbl, g, ev, timed, [a2[0] // 2, a2[len(a2) // 2] // 2 + 0.5 if (a2[len(a2) // 2] + 1) in a2 else a2[len(a2) // 2] // 2, a2[-1] // 2]))
    d = T['athlon']
    for g in 'mf':
        for row in d[g]:
            ev = row[0]
            a2 = list(range(70, 2 * 131 + 1, 1 if not quick else 3))
            jobs.append(('athlon', g, ev, a2, True, d['ages'][-1], None))      # (the combined-events factors are bound to the published table by C01)
    with Pool(common.NCPU) as pool:
        recs = [x for part in pool.map(_ag_job, jobs, chunksize=4) for x in part]
    # spelling independence
    for tbl, g, ev, timed, ages in spjobs:
        yr = int(tbl)
        evs = [ev] + ([ev.lower()] if ev.lower() != ev and check_event_code(ev.lower()) else [])
        for age in ages:
            vs = []
            b0 = call(athlib.wma_world_best, g, ev, year=yr)
            perf = (fmt_time(round(b0 * 1.1, 2)) if timed else round(b0 * 0.9, 2)) if not isinstance(b0, Exception) else '10.0'
            for gs in GENDERS[g]:
                for e in evs:
                    vs.append([L(call(athlib.wma_age_factor, gs, age, e, year=yr)), L(call(athlib.wma_world_best, gs, e, year=yr)),
                               L(call(athlib.wma_age_grade, gs, age, e, perf, year=yr))])
            recs.append({'k': 'sp', 'tbl': tbl, 'g': g, 'ev': ev, 'age2': int(age * 2), 'vs': vs, 'n': 3 * len(vs),
                         'spellings': [(gs, e) for gs in GENDERS[g] for e in evs]})
    for g in 'mf':
        for row in T['athlon'][g]:
            ev = row[0]
            evs = [ev] + ([ev.lower()] if check_event_code(ev.lower()) else [])
            for age in (35, 52, 110):
                vs = []
                for gs in GENDERS[g]:
                    for e in evs:
                        fv = call(athlib.wma_athlon_age_factor, gs, age, e)
                        vs.append([L(fv), L(1.0), L(1.0)])
                recs.append({'k': 'sp', 'tbl': 'athlon', 'g': g, 'ev': ev, 'age2': age * 2, 'vs': vs, 'n': len(vs),
                             'spellings': [(gs, e) for gs in GENDERS[g] for e in evs]})
    return judge(rep, recs, C14_CLAUSES)


def judge(rep, recs, want):
    with Scratch(rep.pid) as sc:
        specdir = common.prepare_spec_dir(sc)
        rep.count('evaluations', sum(x['n'] for x in recs))
        slim = [{k: v for k, v in x.items() if k not in ('n', 'spellings', 'tbl', 'g', 'ev', 'age2', 'codes', 'seams')} for x in recs]
        reports, outs = common.validate_records(specdir, sc, 'Trace_AgeGrade', slim, timeout=3000)
        for r in outs:
            rep.absorb_tlc(r, traces=1)
        for pr in reports:
            x = recs[pr['index']]
            for cl in pr['clauses']:
                if cl not in want:
                    continue
                if x['k'] == 'ip':
                    at = pr.get('at')
                    rep.add_violation('%s:%s:%s' % (cl, x['tbl'], zone(x, at)), '%s: table %s gender %s age %s distance %s m' % (
                        cl, x['tbl'], x['g'], x['age2'] / 2.0, at / 1000.0 if at else '?'),
                        {'tbl': x['tbl'], 'g': x['g'], 'age': x['age2'] / 2.0, 'd': at / 1000.0 if at else 0})
                else:
                    rep.add_violation('%s:%s:%s' % (cl, x['tbl'], x['ev']), '%s: table %s gender %s event %s age %s%s' % (
                        cl, x['tbl'], x['g'], x['ev'], x['age2'] / 2.0, (' spellings %s' % (x.get('spellings'),)) if x['k'] == 'sp' else ''),
                        {'tbl': x['tbl'], 'g': x['g'], 'ev': x['ev'], 'age': x['age2'] / 2.0})
        kinds = {}
        for x in recs:
            kinds[x['k']] = kinds.get(x['k'], 0) + 1
        rep.setcov('records', kinds)
        rep.setcov('distinct_nontrivial', len(recs))
        rep.setcov('rule', 'distinct (table, gender, event, age) queries / spelling groups / (table, gender, age) distance sweeps')
        for x in (recs[0], recs[len(recs) // 2], recs[-1]):
            y = {k: v for k, v in x.items() if k not in ('n', 'rows')}
            for f in ('perfs', 'vs', 'queries'):
                if f in y:
                    y[f] = y[f][:2]
            rep.sample(y)
    rep.assumptions += ['doubles are compared by bit pattern (limbs); the one arithmetic identity (grade = standard / performance) is evaluated '
                        'by the harness from the three publicly returned doubles and bounded at 4 ulps by TLC',
                        'domain: ages whose bracketing table columns are non-null, integer and half-integer, to 20 years past the last column']
    return rep.finish()


def zone(x, at):
    if not at:
        return 'order'
    first, last = x['rows'][0][0], x['rows'][-1][0]
    # between the tabulated distance of a mile-based row and get_distance()'s 1609 m approximation of it
    for lo, hi in x.get('seams', []):
        if lo - 1000 <= at <= hi + 1000:
            return 'mile_seam'
    return 'below' if at < first else 'beyond' if at > last else 'inside'


# ----------------------------------------------------------------------------- C15

def codes_for(dm):
    """event codes that spell a running distance of dm metres"""
    out = [str(dm)]
    if dm % 10 == 0:                      # N[.dd]K, below one kilometre too (0.75K, 0.4K, 0.05K)
        k = dm / 1000.0
        out.append(('%.2f' % k).rstrip('0').rstrip('.') + 'K')
        if dm < 1000 and dm % 100 == 0:
            out.append('%.2fK' % k)      # 0.50K
        # padded spellings of round distances (seed C15-h: a "tidy-up" of trailing zeros that ate the zeros of the integer
        # part - '70.0K' read as '7K'): whole kilometres as N.0K / N.00K / Nk, tenths as N.d0K
        if dm % 1000 == 0 and dm <= 999000:
            out += ['%d.0K' % (dm // 1000), '%d.00K' % (dm // 1000), '%dk' % (dm // 1000)]
        elif dm % 100 == 0 and dm <= 999000:
            out.append('%.2fK' % k)
    return out


def _ip_job(job):
    """One process asks the same distance codes of several lanes (table year, gender, age), the lanes taking turns in a
    rotating order: an answer must not depend on which other year / gender / age was asked just before."""
    common.use_repo()
    import athlib
    from athlib.utils import get_distance
    lanes, dists = job
    L_ = []
    for tbl, g, age, rowcodes in lanes:
        yr = int(tbl)
        rows = []
        for code, dmm in rowcodes:
            rows.append([dmm, L(call(athlib.wma_age_factor, g, age, code, year=yr)), L(call(athlib.wma_world_best, g, code, year=yr))])
        seams = []
        for code, dmm in rowcodes:
            gd = call(get_distance, code)
            if isinstance(gd, int) and gd * 1000 != dmm:
                seams.append([min(gd * 1000, dmm), max(gd * 1000, dmm)])
        L_.append({'tbl': tbl, 'g': g, 'age': age, 'yr': yr, 'rows': rows, 'seams': seams, 'tabd': dict(rowcodes), 'queries': [], 'codes': [], 'rowcodes': list(rowcodes)})
    nl = len(L_)
    for idx, (dm, code) in enumerate(dists):
        for r in range(nl):
            ln = L_[(idx + r) % nl]
            # the distance of a query is the one its spelling states (dm metres), never what get_distance made of it:
            # a misread spelling then shows as a factor / best outside its neighbours, and a spelling that cannot be
            # measured as a raised query
            # the two questions about one distance come in three orders: factor then best; best then factor; best, a
            # tabulated event in between (result discarded), then factor - what one call leaves behind on the shared
            # grader must not leak into the next (seed C15-g: a "row already located" mark that a tabulated look-up
            # in between does not clear)
            mode = (idx + r) % 3
            if mode == 0:
                fa = L(call(athlib.wma_age_factor, ln['g'], ln['age'], code, year=ln['yr']))
                wb = L(call(athlib.wma_world_best, ln['g'], code, year=ln['yr']))
            else:
                wb = L(call(athlib.wma_world_best, ln['g'], code, year=ln['yr']))
                if mode == 1 and ln['rowcodes']:
                    other = ln['rowcodes'][idx % len(ln['rowcodes'])][0]
                    call(athlib.wma_age_factor, ln['g'], ln['age'], other, year=ln['yr'])
                fa = L(call(athlib.wma_age_factor, ln['g'], ln['age'], code, year=ln['yr']))
            ln['queries'].append([ln['tabd'][code] if code in ln['tabd'] else dm * 1000, fa, wb])
            ln['codes'].append(code)
    out = []
    for ln in L_:
        order = sorted(range(len(ln['queries'])), key=lambda i: ln['queries'][i][0])
        out.append({'k': 'ip', 'tbl': ln['tbl'], 'g': ln['g'], 'age2': int(ln['age'] * 2), 'rows': ln['rows'],
                    'queries': [ln['queries'][i] for i in order], 'codes': [ln['codes'][i] for i in order],
                    'seams': ln['seams'], 'n': 2 * len(order)})
    return out


def run15(tier):
    rep = Report('C15', tier, 'model_checking')
    quick = tier == 'quick'
    rng = random.Random(common.seed() * 3 + 15)
    T = tables()
    # ages across the table INCLUDING its two ends: the first columns (where field rows have empty cells) and the last ones
    # (2015 ends at 100, 2023 at 110) - seed C15-k used a stale 'max_age = 100' on the interpolation path only
    ages = [8, 35, 50, 72.5, 90, 101, 108] if quick else [5, 8, 13, 20, 35, 42.5, 50, 65, 80.5, 95, 100, 101, 105, 108, 110]
    lanes, ds = [], set()
    for tbl in ('2015', '2023'):
        d = T[tbl]
        for g in 'mf':
            table = d[g]
            i0 = next(i for i, r in enumerate(table) if r[0] == '50')
            run_rows = table[i0:]
            rowcodes = [(r[0], int(round(r[1] * 1000000))) for r in run_rows]
            tab = sorted({int(round(r[1] * 1000)) for r in run_rows})
            for t in tab + [20, 400000]:
                ds.update(range(max(20, t - 3), min(400000, t + 3) + 1))
            for age in ages:
                lanes.append((tbl, g, age, rowcodes))
    ds.update(range(20, 400001, 37 if quick else 7))
    ds.update(range(1000, 400001, 1000))          # every whole kilometre (padded spellings N.0K, N.00K)
    ds.update(range(100, 30001, 100))
    if not quick:
        ds.update(range(20, 60001))
    dists = []
    for dm in sorted(ds):
        for code in codes_for(dm):
            dists.append((dm, code))
    # miles spellings (athlib counts a mile as 1609 m: the stated distance of q miles is floor(1609 q) metres)
    for k in range(1, 250):
        dists.append((1609 * k, '%dM' % k))
        dists.append((1609 * k, '%d.0M' % k))
        dists.append((1609 * k, '%d.00M' % k))
        if k < 40:
            dists.append(((1609 * (100 * k + 50)) // 100, '%d.5M' % k))
            dists.append(((1609 * (100 * k + 25)) // 100, '%d.25M' % k))
    # every one-decimal road spelling N.dM / N.dK in range and the two-decimal ones of the shorter distances - the quantifier
    # names them all (seed C15-i: four "well-known" mile spellings, 3.1M 6.2M 13.1M 26.2M, aliased to the 5K / 10K / HM / MAR rows)
    for n in range(0, 249):
        for d in range(0, 10):
            q = 10 * n + d                       # tenths of a mile
            if (1609 * q) // 10 >= 20:
                dists.append(((1609 * q) // 10, '%d.%dM' % (n, d)))
    for n in range(0, 31):
        for d in range(0, 100):
            q = 100 * n + d
            if (1609 * q) // 100 >= 20 and d % 10:
                dists.append(((1609 * q) // 100, '%d.%02dM' % (n, d)))
    for n in range(0, 400):
        for d in range(1, 10):
            dm_ = 1000 * n + 100 * d
            if dm_ >= 20:
                dists.append((dm_, '%d.%dK' % (n, d)))
    # yards on the track ('440Y', '100y'): untabulated, so graded by distance - 0.9144 m each
    for n in list(range(25, 2000, 5)) + list(range(2000, 11000, 40)):
        dists.append(((9144 * n) // 10000, '%dY' % n))
        if n % 20 == 0:
            dists.append(((9144 * n) // 10000, '%dy' % n))
    for q in range(2, 100):             # below one mile: 0.02M .. 0.99M
        if (1609 * q) // 100 >= 20:
            dists.append(((1609 * q) // 100, ('0.%02d' % q).rstrip('0') + 'M'))
    dists.sort(key=lambda x: x[0])
    # every process serves all lanes (both table years, both genders, all ages) for its share of the distances
    chunk = max(200, -(-len(dists) // (common.NCPU * (2 if quick else 16))))
    jobs = [(lanes, dists[i:i + chunk]) for i in range(0, len(dists), chunk)]
    with Pool(common.NCPU) as pool:
        recs = [x for part in pool.map(_ip_job, jobs, chunksize=1) for x in part]
    rep.setcov('queries', sum(len(x['queries']) for x in recs))
    rep.setcov('lanes_per_process', len(lanes))
    return judge(rep, recs, C15_CLAUSES)


def replay(rec):
    common.use_repo()
    import athlib
    r = rec['replay']
    yr = int(r['tbl']) if r['tbl'] != 'athlon' else None
    if 'd' in r:
        for dm in (int(r['d']) - 1, int(r['d']), int(r['d']) + 1):
            for code in codes_for(dm):
                print('  %s: factor %r best %r' % (code, call(athlib.wma_age_factor, r['g'], r['age'], code, year=yr),
                                                    call(athlib.wma_world_best, r['g'], code, year=yr)))
        return 0
    if yr is None:
        print('  wma_athlon_age_factor(%r, %r, %r) -> %r' % (r['g'], r['age'], r['ev'], call(athlib.wma_athlon_age_factor, r['g'], r['age'], r['ev'])))
        return 0
    print('  factor %r best %r' % (call(athlib.wma_age_factor, r['g'], r['age'], r['ev'], year=yr), call(athlib.wma_world_best, r['g'], r['ev'], year=yr)))
    return 0
