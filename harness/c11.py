from . import junior


def run(tier):
    return junior.run('C11', tier)


def replay(rec):
    return junior.replay(rec)
