from . import hjcheck


def run(tier):
    return hjcheck.run('C08', tier)


def replay(rec):
    return hjcheck.replay(rec)
