from . import athlon


def run(tier):
    return athlon.run('C01', tier)


def replay(rec):
    return athlon.replay(rec)
