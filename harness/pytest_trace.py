"""pytest plugin: record what the repository's own test-suite does with the stateful objects
the specifications describe, so that TLC can validate every step of the suite's executions
(code -> spec, on the traces of the existing tests - "smart casual" trace validation).

Loaded with  PYTHONPATH=/verif  pytest -p harness.pytest_trace ;  output file: $VERIF_PYTEST_TRACE.
No source hook is needed: the six public calls of HighJumpCompetition are wrapped from outside,
each wrapper logs (call, outcome class, full public snapshot, derived views) *after* the call
returned or raised - the linearization point of a sequential object.  Nested use (from_actions /
from_matrix replays made while recording the extras of a step) is skipped with a depth counter.

Also recorded: the history of schema_valid / valid_against_schema calls of the whole test session
(one process = one history, validated by Trace_SchemaCache.tla against fresh-process outcomes).
"""
import os, json, functools

_OUT = os.environ.get('VERIF_PYTEST_TRACE')
_traces = []          # one dict per HighJumpCompetition instance: {'test': nodeid, 'steps': [...]}
_by_id = {}
_depth = [0]
_current_test = ['']
_schema_hist = []



def _schema_exc_name(e):
    """Subclasses of the jsonschema error classes the property names count as those classes (benign E19)."""
    try:
        import jsonschema
        for base in (jsonschema.SchemaError, jsonschema.ValidationError):
            if isinstance(e, base):
                return base.__name__
    except Exception:
        pass
    return type(e).__name__


def _install():
    from harness import hj
    from athlib.highjump import HighJumpCompetition as HJ
    from athlib.exceptions import RuleViolation

    def outcome(e):
        if e is None:
            return 'ok'
        if isinstance(e, RuleViolation):
            return 'rule'
        if isinstance(e, KeyError):
            return 'key'
        if isinstance(e, AssertionError):
            return 'assert'
        return 'exc:' + type(e).__name__

    def mkcall(name, args, kwargs):
        if name == 'add_jumper':
            return {'op': 'addq' if kwargs.get('order') in ('DQ', 'DNS') else 'add', 'b': str(kwargs.get('bib', '0')), 'h': 0}
        if name == 'set_bar_height':
            return {'op': 'bar', 'b': '', 'h': hj.cm(args[0] if args else kwargs.get('new_height'))}
        return {'op': hj._LETTER[name], 'b': str(args[0] if args else kwargs.get('bib')), 'h': 0}

    def wrap(name):
        orig = getattr(HJ, name)

        @functools.wraps(orig)
        def w(self, *args, **kwargs):
            if _depth[0]:
                return orig(self, *args, **kwargs)
            err = None
            try:
                return orig(self, *args, **kwargs)
            except BaseException as e:
                err = e
                raise
            finally:
                _depth[0] += 1
                try:
                    t = _by_id.get(id(self))
                    if t is None or t['obj'] is not self:
                        t = {'test': _current_test[0], 'steps': [], 'obj': self}
                        _by_id[id(self)] = t
                        _traces.append(t)
                    try:
                        call = mkcall(name, args, kwargs)
                        post = hj.snapshot(self)
                        st = {'c': call, 'out': outcome(err), 'post': post, 'v': hj.views(self), 'pr': []}
                        if len(post['j']) <= 6:      # the extras replay the whole log: small competitions only
                            st['rep'] = hj.replay_log(self)
                            st['rt'] = hj.round_trip(self, HJ)
                        t['steps'].append(st)
                    except Exception as e2:      # recording must never disturb the test
                        t.setdefault('recorder_errors', []).append('%s: %s' % (type(e2).__name__, e2))
                finally:
                    _depth[0] -= 1
        return w

    for name in ('add_jumper', 'set_bar_height', 'cleared', 'failed', 'passed', 'retired'):
        setattr(HJ, name, wrap(name))

    # ---- schema helpers: the session's call history
    from athlib import utils as U

    def wrap_schema(name):
        orig = getattr(U, name)

        @functools.wraps(orig)
        def w(*args, **kwargs):
            err = None
            res = None
            try:
                res = orig(*args, **kwargs)
                return res
            except BaseException as e:
                err = e
                raise
            finally:
                try:
                    _schema_hist.append({'fn': name, 'args': [_plain(a) for a in args],
                                         'kwargs': {k: _plain(v) for k, v in kwargs.items()},
                                         'out': ('exc:' + _schema_exc_name(err)) if err is not None else 'ret:%r' % (res,),
                                         'test': _current_test[0]})
                except Exception:
                    pass
        return w

    for name in ('schema_valid', 'valid_against_schema'):
        if hasattr(U, name):
            setattr(U, name, wrap_schema(name))
            import athlib
            if getattr(athlib, name, None) is not None:
                setattr(athlib, name, getattr(U, name))


# ---- input corpus: what the suite feeds to the functions the F-specifications describe --------------------------------
_corpus = {}
_CORPUS_TARGETS = {
    'athlib.utils': ['normalize_event_code', 'check_event_code', 'discipline_sort_key', 'text_discipline_sort_key', 'sort_by_discipline',
                     'get_distance', 'get_duration_event_time', 'check_performance_for_discipline', 'round_up_str_num',
                     'format_seconds_as_time', 'parse_hms', 'str2num', 'is_hand_timing', 'normalize_gender'],
    'athlib.athlon_score': ['score', 'performance'],
    'athlib.hungarian_score': ['score'],
    'athlib.bulgarian_score': ['score'],
    'athlib.tyrving_score': ['tyrving_score'],
    'athlib.qkids_score': ['qkids_score'],
    'athlib.sportshall_score': ['sportshall_score'],
    'athlib.uka.agegroups': ['calc_uka_age_group'],
    'athlib.implements': ['get_implement_weight', 'get_specific_event_code'],
    'athlib': ['wma_age_grade', 'wma_age_factor', 'wma_world_best', 'wma_athlon_age_factor', 'wma_athlon_age_grade'],
}
_CORPUS_METHODS = {'athlib.wma.agegrader': {'AgeGrader': ['calculate_factor', 'calculate_age_grade', 'world_best'],
                                            'AthlonsAgeGrader': ['calculate_factor', 'calculate_age_grade']}}


def _jsonable(v, depth=0):
    import datetime, decimal
    if isinstance(v, (str, int, float, bool)) or v is None:
        return v
    if isinstance(v, decimal.Decimal):
        return {'@': 'Decimal', 'v': str(v)}
    if isinstance(v, datetime.datetime):
        return {'@': 'datetime', 'v': v.isoformat()}
    if isinstance(v, datetime.date):
        return {'@': 'date', 'v': v.isoformat()}
    if isinstance(v, type):
        return {'@': 'class', 'v': v.__name__}
    if isinstance(v, (list, tuple)) and depth < 2 and len(v) <= 64:
        return [_jsonable(x, depth + 1) for x in v]
    raise TypeError(type(v).__name__)


def _install_corpus():
    import sys, importlib
    by_id = {}

    def mk(label, orig, skip_self=False):
        @functools.wraps(orig)
        def w(*args, **kwargs):
            try:
                a = args[1:] if skip_self else args
                rec = {'a': [_jsonable(x) for x in a], 'k': {k: _jsonable(v) for k, v in kwargs.items()}, 't': _current_test[0]}
                if skip_self:
                    rec['year'] = _jsonable(getattr(args[0], 'year', None))
                lst = _corpus.setdefault(label, [])
                if len(lst) < 5000:
                    lst.append(rec)
            except Exception:
                pass
            return orig(*args, **kwargs)
        return w

    for modname, names in _CORPUS_TARGETS.items():
        try:
            mod = importlib.import_module(modname)
        except Exception:
            continue
        for n in names:
            f = vars(mod).get(n)
            if callable(f) and not isinstance(f, type):
                by_id[id(f)] = mk('%s.%s' % (modname, n), f)
    for modname, mod in list(sys.modules.items()):
        if mod is None or not (modname == 'athlib' or modname.startswith('athlib.')):
            continue
        for attr, val in list(vars(mod).items()):
            w = by_id.get(id(val))
            if w is not None:
                setattr(mod, attr, w)
    for modname, classes in _CORPUS_METHODS.items():
        try:
            mod = importlib.import_module(modname)
        except Exception:
            continue
        for cname, meths in classes.items():
            cls = getattr(mod, cname, None)
            if cls is None:
                continue
            for mname in meths:
                f = cls.__dict__.get(mname)
                if callable(f):
                    setattr(cls, mname, mk('%s.%s.%s' % (modname, cname, mname), f, skip_self=True))


def _plain(v):
    if isinstance(v, (str, int, float, bool)) or v is None:
        return v
    if isinstance(v, type):
        return 'class:' + v.__name__
    return 'obj:' + type(v).__name__


def pytest_configure(config):
    if _OUT:
        _install()
        if os.environ.get('VERIF_PYTEST_CORPUS'):
            _install_corpus()


def pytest_runtest_setup(item):
    _current_test[0] = item.nodeid


def pytest_sessionfinish(session, exitstatus):
    if not _OUT:
        return
    with open(_OUT, 'w') as f:
        for t in _traces:
            if t['steps']:
                f.write(json.dumps({'kind': 'hj', 'test': t['test'], 'steps': t['steps'],
                                    'recorder_errors': t.get('recorder_errors', [])}) + '\n')
        f.write(json.dumps({'kind': 'schema', 'history': _schema_hist}) + '\n')
        if _corpus:
            f.write(json.dumps({'kind': 'corpus', 'calls': _corpus}) + '\n')
