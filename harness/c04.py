"""C04 - event-code families: unions are exact and measurement kinds never overlap.

The live regular expressions are translated to NFAs (harness/rx.py), TLC explores the complete
product automaton (EventCodes.tla) and evaluates every clause in every product state: a decision
for all strings over all of Unicode with no length bound.  The translation is bound to the real
`re` engine by checking, for one witness per product state and per product transition, that the
automaton's acceptance vector equals `PAT_x.match(s) is not None` for every exported pattern.
"""
import os, json
from . import common, rx
from .common import Report, Scratch, MachineryError


def live_patterns():
    common.use_repo()
    import athlib.codes as codes
    return {n: getattr(codes, n) for n in codes.__all__ if n.startswith('PAT_') and hasattr(getattr(codes, n), 'pattern')}


def explore(sc, pats, cfg='EventCodes.cfg', module='EventCodes', extra_split=()):
    tr = rx.translate(pats, extra_split)
    specdir = common.prepare_spec_dir(sc)
    with open(os.path.join(specdir, 'EventCodesNFA.tla'), 'w') as f:
        f.write(rx.tla_module(tr))
    # one worker: breadth-first search is then deterministic, and so are the witness strings every language-based check uses
    r = common.run_tlc(specdir, module, cfg, workers=1, heap='4g', timeout=1800)
    return tr, r, specdir


def instantiate(tr, w, variant):
    out = []
    for i, c in enumerate(w):
        reps = rx.representatives(tr['classes'][c - 1])
        out.append(chr(reps[(variant + i) % len(reps)]))
    return ''.join(out)


def bind_to_re(tr, pats, states, rep, observed=None):
    """Every product state and every product transition against the real engine.  Patterns in tr['approx'] (constructs
    the translator can only over-approximate) may disagree with their automaton; the acceptance sets the engine reports
    are collected in `observed` so that the clauses can be judged on them."""
    names = list(pats.keys())
    approx = tr.get('approx') or {}
    checked = 0
    disagree = 0
    for st in states:
        w = st['w']
        for c in range(0, len(tr['classes']) + 1):
            seq = w if c == 0 else w + [c]
            predicted = set(st['acc'] if c == 0 else st['nxt'][c - 1])
            nvar = 3 if c else 2
            for variant in range(nvar):
                s = instantiate(tr, seq, variant)
                acc = []
                for n in names:
                    real = pats[n].match(s) is not None
                    checked += 1
                    if real:
                        acc.append(n)
                    if real != (n in predicted):
                        if n in approx:
                            disagree += 1
                            continue
                        if not approx:
                            raise MachineryError('translator/re disagreement on %r for %s: re=%s automaton=%s' % (
                                s, n, real, n in predicted))
                        # a composite built from an approximated part differs too: tolerated, judged on the observation
                        disagree += 1
                if observed is not None:
                    observed.append({'s': [ord(ch) for ch in s], 'acc': acc})
    rep.count('evaluations', checked)
    if approx:
        rep.setcov('automaton_vs_engine_disagreements_on_approximated_patterns', disagree)
    return checked


def judge_observed(specdir, sc, observed, tr, pats, rep):
    """TLC evaluates EventCodes!Clauses on the acceptance sets the real engine reported"""
    seen = {}
    for o in observed:
        seen.setdefault(tuple(o['acc']), o)
    recs = list(seen.values())
    reports, outs = common.validate_records(specdir, sc, 'Trace_EventCodes', recs, nshards=4, tag='c04obs')
    for r in outs:
        rep.absorb_tlc(r)
    for pr in reports:
        o = recs[pr['index']]
        s = ''.join(chr(c) for c in o['s'])
        for cl in pr['clauses']:
            rep.add_violation('%s:%s' % (cl, '+'.join(sorted(set(o['acc']) & {'PAT_TIMED_EVENT', 'PAT_FIELD', 'PAT_MULTI',
                              'PAT_RACES_FOR_DISTANCE', 'PAT_EVENT_CODE'}))),
                              '%s: the string %r is accepted by exactly %s' % (cl, s, sorted(o['acc'])),
                              {'string': s, 'clause': cl, 'accepted_by': sorted(o['acc'])})
    return len(recs)


def run(tier):
    rep = Report('C04', tier, 'model_checking')
    pats = live_patterns()
    required = ['PAT_EVENT_CODE', 'PAT_TRACK', 'PAT_HURDLES', 'PAT_ROAD', 'PAT_RELAYS', 'PAT_JUMPS', 'PAT_THROWS',
                'PAT_MULTI', 'PAT_RACES_FOR_DISTANCE', 'PAT_HIGHSCORING_EVENT', 'PAT_LOWSCORING_EVENT', 'PAT_RUN',
                'PAT_FIELD', 'PAT_VERTICAL_JUMPS', 'PAT_HORIZONTAL_JUMPS', 'PAT_LENGTH_EVENT', 'PAT_TIMED_EVENT',
                'PAT_FINISH_RECORD', 'PAT_PERF', 'PAT_FINISHED', 'PAT_NOT_FINISHED']
    missing = [n for n in required if n not in pats]
    if missing:
        raise MachineryError('patterns named by the property are no longer exported: %s' % missing)
    with Scratch('C04') as sc:
        tr, r, specdir = explore(sc, pats)
        rep.absorb_tlc(r)
        states = r.printed
        if len(states) != r.distinct:
            raise MachineryError('expected one line per product state (%d vs %d)' % (len(states), r.distinct))
        approx = tr.get('approx') or {}
        observed = [] if approx else None
        bind_to_re(tr, pats, states, rep, observed)
        # binding self-test (DESIGN section 7): the witnesses bind the automaton to the engine - a product state whose predicted
        # acceptance set is corrupted (one accepting pattern dropped) must be noticed by the very comparison that just passed
        if not approx and not os.environ.get('VERIF_NO_SELFTEST'):
            import copy
            victims = [copy.deepcopy(st) for st in states if st['acc']][:6]
            noticed = 0
            for st in victims:
                st['acc'] = list(st['acc'])[1:]
                try:
                    bind_to_re(tr, pats, [st], Report('x', 'quick', 'model_checking'))
                except MachineryError:
                    noticed += 1
            common.SELFTESTS.append({'trace_spec': 'EventCodesNFA witnesses against re', 'corrupted': len(victims), 'rejected': noticed})
            if noticed < len(victims):
                raise MachineryError('binding self-test: %d of %d corrupted acceptance sets went unnoticed' % (len(victims) - noticed, len(victims)))
        if approx:
            # no decision for these patterns: the clauses are judged on what the engine answers for the witnesses
            n = judge_observed(specdir, sc, observed, tr, pats, rep)
            rep.setcov('approximated_patterns', approx)
            rep.setcov('observed_acceptance_sets_judged', n)
            rep.notes.append('patterns %s use constructs translated as an over-approximation (%s): for them the verdict rests on the '
                     'engine\'s answers for %d witness strings, not on the complete automaton' % (
                         sorted(approx), sorted({w for v in approx.values() for w in v}), len(observed)))
        accepted_somewhere = set()
        for st in states:
            accepted_somewhere |= set(st['acc'])
        never = [n for n in required if n not in accepted_somewhere]
        if never:
            raise MachineryError('vacuity guard: patterns never accepted in the product automaton: %s' % never)
        rep.setcov('exhaustive', not approx)
        rep.setcov('code_point_classes', len(tr['classes']))
        rep.setcov('patterns', len(pats))
        rep.setcov('nfa_states', {n: tr['nfas'][n].n for n in tr['names']})
        rep.setcov('distinct_nontrivial', sum(1 for st in states if st['acc']))
        rep.setcov('rule', 'product-automaton states in which at least one pattern accepts')
        for st in states:
            if st['bad']:
                s = instantiate(tr, st['w'], 0)
                real = sorted(n for n in pats if pats[n].match(s) is not None)
                for cl in st['bad']:
                    rep.add_violation('%s:%s' % (cl, '+'.join(sorted(set(real) & {'PAT_TIMED_EVENT', 'PAT_FIELD', 'PAT_MULTI',
                                      'PAT_RACES_FOR_DISTANCE', 'PAT_EVENT_CODE'}))),
                                      '%s: the string %r is accepted by exactly %s' % (cl, s, real),
                                      {'string': s, 'clause': cl, 'accepted_by': real})
        for st in [x for x in states if x['acc']][:4]:
            rep.sample({'string': instantiate(tr, st['w'], 0), 'accepted_by': st['acc']})
    rep.setcov('traces_validated_against_impl', len(states))
    rep.assumptions += ['CPython re implements regular semantics for the construct set used (checked on a witness of every '
                        'product state and transition, 2-3 instantiations each)', 'TLC 1.8']
    return rep.finish()


def replay(rec):
    pats = live_patterns()
    s = rec['replay']['string']
    print('string %r' % s)
    for n in sorted(pats):
        if pats[n].match(s) is not None:
            print('  accepted by', n)
    return 0
