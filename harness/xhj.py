"""Extension (not a listed property, not in MANIFEST.json): the JavaScript high-jump port
js/src/highjump.js as a *second implementation* bound to HighJump.tla.

The same behaviours that C02/C03 replay on the Python object (seeded competition scripts, engineered
ties, the repository's test matrices) are replayed in node on the unmodified port; Trace_HighJump.tla
validates every recorded step with the same monitors (rule level) and the same mechanism model.  The
result is informational: it shows where the port departs from the specification (it is a translation
of the Python code as it was before the fix: commits).  Writes evidence/XHJ.json; always exits 0 unless
the machinery fails."""
import os, json, random, subprocess
from . import common, hj, hjcheck
from .common import Report, Scratch, MachineryError


def run(tier):
    rep = Report('XHJ', tier, 'model_checking')
    rng = random.Random(common.seed() + 77)
    n = 300 if tier == 'quick' else 3000
    jobs = []
    for i in range(n):
        nb = rng.choice([1, 2, 2, 3, 3, 4])
        jobs.append(hjcheck.gen_tie_competition(rng, nb) if i % 3 == 0 and nb >= 2 else hjcheck.gen_competition(rng, nb, wild=0.1))
    jobs += hjcheck.repo_scenarios()
    jobs += [hjcheck.script(t) for t in hjcheck.TIE_STARTS]
    with Scratch('XHJ') as sc:
        specdir = common.prepare_spec_dir(sc)
        cin, cout = sc.file('jobs.ndjson'), sc.file('out.ndjson')
        common.write_ndjson(cin, jobs)
        p = subprocess.run(['node', os.path.join(common.VERIF, 'harness', 'js', 'hj_shim.js'), common.REPO, cin, cout],
                           stdout=subprocess.PIPE, stderr=subprocess.PIPE, timeout=1800)
        if p.returncode != 0:
            raise MachineryError('node hj shim failed: %s' % p.stderr.decode()[-600:])
        with open(cout) as f:
            traces = [json.loads(l) for l in f if l.strip()]
        reports = hjcheck.validate_traces(specdir, sc, traces, rep)
        viol, drift = {}, {}
        examples = {}
        for pr in reports:
            tgt = viol if pr['kind'] == 'viol' else drift if pr['kind'] == 'drift' else None
            if tgt is None:
                continue
            for cl in pr['clauses']:
                tgt[cl] = tgt.get(cl, 0) + 1
                if cl not in examples:
                    calls = jobs[pr['trace']][:pr['l']]
                    examples[cl] = ' '.join(hjcheck.fmt_call(c) for c in calls[-14:])
        nsteps = sum(len(t['steps']) for t in traces)
        rep.setcov('js_port', dict(behaviours=len(traces), steps=nsteps, monitor_clause_failures=viol, model_deviations=drift,
                                    first_example_per_clause=examples))
        rep.count('evaluations', nsteps)
        rep.setcov('distinct_nontrivial', len({json.dumps(s['post'], sort_keys=True) for t in traces for s in t['steps']}))
        rep.setcov('rule', 'distinct observed snapshots of the JavaScript object')
        rep.sample({'calls': ' '.join(hjcheck.fmt_call(c) for c in jobs[0]), 'final_state': traces[0]['steps'][-1]['post']['state']})
        print('XHJ: %d steps of %d behaviours on js/src/highjump.js' % (nsteps, len(traces)))
        print('  monitor clause failures (property-level departures of the port):', json.dumps(viol, sort_keys=True))
        print('  mechanism-model deviations:', json.dumps(drift, sort_keys=True))
        for cl, ex in sorted(examples.items()):
            print('    %-34s e.g. after ... %s' % (cl, ex))
    rep.assumptions += ['informational extension: results are not verdicts on a listed property']
    rep.violations = []
    rep.drift = []
    return rep.finish()


def replay(rec):
    return 0
