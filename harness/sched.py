"""Deterministic cooperative line-level scheduler for real athlib code (C16).

Every thread runs under sys.settrace; each `line` event on a *visible* line of a file inside
athlib/ is a yield point: the controller releases one thread at a time with a budget of steps; the
thread counts and logs its own steps (snapshot of the shared state before each line) and parks again
when the budget is used up, so a *schedule* (sequence of (thread, number of steps) segments)
determines the interleaving at source-line granularity without a hand-off per line.

Visible lines are found by AST: lines that touch `self.<attr>` or a module-level (global) name.
Steps on purely local state commute, so switching only at visible lines loses no behaviour.

A granted thread that does not come back within BLOCK_TIMEOUT *and* sits on a source line that takes a
lock (or has not come back after SLOW_LIMIT) is taken to be blocked on a lock held by a parked thread;
the controller then runs another thread.  Imprecision here can only change *which* real interleaving
is executed, never fabricate one (no false alarms).
"""
import sys, os, ast, threading, queue, time

BLOCK_TIMEOUT = 0.03
SLOW_LIMIT = 10.0
WATCHDOG = 90.0

_visible_cache = {}


def visible_lines(filename):
    v = _visible_cache.get(filename)
    if v is not None:
        return v
    try:
        with open(filename, encoding='utf8') as f:
            tree = ast.parse(f.read())
    except Exception:
        _visible_cache[filename] = None
        return None
    globs = set()
    for node in tree.body:
        targets = []
        if isinstance(node, ast.Assign):
            targets = node.targets
        elif isinstance(node, (ast.AnnAssign, ast.AugAssign)):
            targets = [node.target]
        for t in targets:
            for n in ast.walk(t):
                if isinstance(n, ast.Name):
                    globs.add(n.id)
    for node in ast.walk(tree):
        if isinstance(node, ast.Global):
            globs.update(node.names)
    lines = set()
    aliased = set()      # functions that receive a shared object (module global / self attribute) as an argument
    for node in ast.walk(tree):
        if isinstance(node, ast.Attribute) and isinstance(node.value, ast.Name) and node.value.id in ('self', 'cls'):
            lines.add(node.lineno)
        elif isinstance(node, ast.Name) and node.id in globs:
            lines.add(node.lineno)
        if isinstance(node, ast.Call) and isinstance(node.func, ast.Name):
            for a in list(node.args) + [k.value for k in node.keywords]:
                if (isinstance(a, ast.Name) and a.id in globs and a.id.upper() != a.id) or \
                        (isinstance(a, ast.Attribute) and isinstance(a.value, ast.Name) and a.value.id == 'self'):
                    aliased.add(node.func.id)
    # inside such a function the shared object is a local name: every line of its body is visible
    for node in ast.walk(tree):
        if isinstance(node, (ast.FunctionDef, ast.AsyncFunctionDef)) and node.name in aliased:
            for sub in ast.walk(node):
                if hasattr(sub, 'lineno'):
                    lines.add(sub.lineno)
    _visible_cache[filename] = lines
    return lines


class Controlled(object):
    def __init__(self, fns, root, snapshot=None, all_lines=False):
        # all_lines: every source line inside athlib is a yield point (very slow for schema validation,
        # whose resolver calls back into athlib thousands of times).  Default: AST-detected visible lines,
        # including every line of a function that is handed a shared object as an argument.
        self.all_lines = all_lines
        self.fns = fns
        self.root = os.path.realpath(root) + os.sep
        self.n = len(fns)
        self.go = [threading.Semaphore(0) for _ in fns]
        self.events = queue.Queue()
        self.status = ['ready'] * self.n      # parked before the first line
        self.results = [None] * self.n
        self.where = [('start', 0)] * self.n
        # budget[i]: how many more steps thread i may take before it parks again (None: run to completion).
        # Exactly one thread is released at a time, so a running thread logs its own steps: no hand-off per line.
        self.budget = [0] * self.n
        self.snapshot = snapshot
        self.trace = []                       # (tid, file:line, snapshot before the line runs)
        self.threads = [threading.Thread(target=self._body, args=(i,), daemon=True) for i in range(self.n)]

    # ---- thread side
    def _step(self, i):
        """Account for and log the step that is about to run at self.where[i]."""
        b = self.budget[i]
        if b is not None:
            self.budget[i] = b - 1
        self.trace.append((i, '%s:%d' % self.where[i], self.snapshot() if self.snapshot else ''))

    def _body(self, i):
        self.go[i].acquire()
        self._step(i)
        sys.settrace(self._make_tracer(i))
        try:
            r = ('ok', self.fns[i]())
        except BaseException as e:           # noqa
            r = ('exc', type(e).__name__)
        finally:
            sys.settrace(None)
        self.results[i] = r
        self.events.put((i, 'done'))

    def _make_tracer(self, i):
        root = self.root

        def local(frame, event, arg):
            if event == 'line':
                fn = frame.f_code.co_filename
                vis = None if self.all_lines else visible_lines(fn)
                if vis is None or frame.f_lineno in vis:
                    self.where[i] = (os.path.basename(fn), frame.f_lineno)
                    b = self.budget[i]
                    if b is not None and b <= 0:
                        self.events.put((i, 'ready'))
                        self.go[i].acquire()
                    self._step(i)
            return local

        def glob(frame, event, arg):
            if event == 'call' and frame.f_code.co_filename.startswith(root):
                return local
            return None
        return glob

    # ---- controller side
    def _grant(self, i, steps=1):
        """Let thread i run `steps` steps (None: to completion). Returns 'ready' | 'done' | 'blocked'."""
        self.status[i] = 'running'
        self.budget[i] = steps
        self.go[i].release()
        t0 = time.time()
        while True:
            try:
                j, what = self.events.get(timeout=BLOCK_TIMEOUT)
            except queue.Empty:
                # not back yet: blocked on a lock held by a parked thread, or merely busy (long call, loaded machine)?
                # Running another thread while this one is still running would break line granularity, so it is only
                # given up when it sits on a line that takes a lock, or after SLOW_LIMIT.
                if self._waits_for_lock(i) or time.time() - t0 > SLOW_LIMIT:
                    self.budget[i] = 0          # it parks at its next line once it gets going again
                    self.status[i] = 'blocked'
                    return 'blocked'
                continue
            self.status[j] = what
            if j == i:
                return what

    def _waits_for_lock(self, i):
        import linecache
        f = sys._current_frames().get(self.threads[i].ident)
        while f is not None:
            fn = f.f_code.co_filename
            if fn.startswith(self.root):
                text = linecache.getline(fn, f.f_lineno)
                return 'lock' in text.lower() or 'acquire' in text
            f = f.f_back
        return False

    def _drain(self, timeout):
        try:
            j, what = self.events.get(timeout=timeout)
            self.status[j] = what
            return True
        except queue.Empty:
            return False

    def run(self, segments):
        """segments: list of (tid, steps or None).  After the segments every unfinished thread is
        run to completion, lowest tid first.  Returns (results, executed) where executed is the
        list of tids in the order their steps were actually taken."""
        for t in self.threads:
            t.start()
        t0 = time.time()
        plan = list(segments) + [(i, None) for i in range(self.n)]
        for tid, steps in plan:
            if time.time() - t0 > WATCHDOG:
                raise RuntimeError('scheduler watchdog: no progress (status %s)' % self.status)
            while self._drain(0):
                pass
            if self.status[tid] != 'ready' or steps == 0:
                continue
            self._grant(tid, steps)
        # leftovers: threads that were blocked when their turn came
        while any(s != 'done' for s in self.status):
            if time.time() - t0 > WATCHDOG:
                raise RuntimeError('scheduler watchdog: threads never finished (status %s)' % self.status)
            ready = [i for i in range(self.n) if self.status[i] == 'ready']
            if ready:
                self._grant(ready[0], None)
            else:
                self._drain(0.05)
        for t in self.threads:
            t.join(timeout=5)
        return self.results, [t for t, _, _ in self.trace]
