// Replays call lists on js/src/highjump.js (loaded unmodified) and writes, per behaviour, the same
// step records the Python recorder produces: node hj_shim.js <repo> <jobs.ndjson> <out.ndjson>
const fs = require('fs');
const path = require('path');
const repo = process.argv[2];
const cache = {};
function load(rel, from) {
  const file = path.resolve(from, rel);
  if (cache[file]) return cache[file].exports;
  let src = fs.readFileSync(file, 'utf8');
  src = src.replace(/import\s*\{([^}]*)\}\s*from\s*'([^']+)';?/g,
    (m, names, mod) => `const {${names}} = __load('${mod}');`);
  const module = { exports: {} };
  cache[file] = module;
  new Function('module', 'exports', '__load', 'require', src)(module, module.exports, (m) => load(m, path.dirname(file)), require);
  return module.exports;
}
const { HighJumpCompetition } = load('./highjump.js', path.join(repo, 'js', 'src'));
const LOGOP = { addJumper: 'add', setBarHeight: 'bar', cleared: 'o', failed: 'x', passed: '-', retired: 'r' };
const cm = (h) => Math.round(Number(h) * 100);
function snapshot(c) {
  const j = {};
  for (const jp of c.jumpers) {
    const pub = jp.place;
    j[String(jp.bib)] = {
      card: jp.attemptsByHeight.map((a) => a.split('')), best: cm(jp.highestCleared), bidx: jp.highestClearedIndex + 1,
      elim: !!jp.eliminated, dism: !!jp.dismissed, lim: jp.roundLim, cf: jp.consecutiveFailures, p: jp._place,
      pub: pub === '' || pub === undefined ? 0 : Number(pub)
    };
  }
  const log = c.actions.map(([a, v]) => {
    const op = LOGOP[a] || a;
    if (op === 'add') return { op: 'add', b: String(v.bib), h: 0 };
    if (op === 'bar') return { op: 'bar', b: '', h: cm(v) };
    return { op: op, b: String(v), h: 0 };
  });
  return { state: c.state, heights: c.heights.map(cm), bar: cm(c.barHeight), order: c.jumpers.map((x) => String(x.bib)),
    ranked: c.rankedJumpers.map((x) => String(x.bib)), j: j, log: log };
}
function apply(c, call) {
  try {
    if (call.op === 'add') c.addJumper({ bib: call.b });
    else if (call.op === 'bar') c.setBarHeight(call.h / 100);
    else c[{ o: 'cleared', x: 'failed', '-': 'passed', r: 'retired' }[call.op]](call.b);
    return 'ok';
  } catch (e) {
    if (e instanceof TypeError) return 'key';        // unknown bib: jumper is undefined
    return 'rule';                                    // the port throws plain Error for rule violations
  }
}
const out = [];
for (const line of fs.readFileSync(process.argv[3], 'utf8').split('\n')) {
  if (!line) continue;
  const calls = JSON.parse(line);
  const c = HighJumpCompetition();
  const steps = [];
  for (const call of calls) {
    const o = apply(c, call);
    steps.push({ c: call, out: o, post: snapshot(c), pr: [] });
  }
  out.push(JSON.stringify({ steps: steps }));
}
fs.writeFileSync(process.argv[4], out.join('\n') + '\n');
