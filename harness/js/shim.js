// Loads js/src/*.js of openath/athlib directly (the files mix ESM imports with module.exports) and
// runs the ported functions over ndjson cases: node shim.js <repo> <cases.ndjson> <out.ndjson>
const fs = require('fs');
const path = require('path');
const repo = process.argv[2];
const cache = {};
function load(rel, from) {
  const file = path.resolve(from, rel);
  if (cache[file]) return cache[file].exports;
  let src = fs.readFileSync(file, 'utf8');
  src = src.replace(/import\s*\{([^}]*)\}\s*from\s*'([^']+)';?/g,
    (m, names, mod) => `const {${names}} = __load('${mod}');`);
  src = src.replace(/export\s+default\s+/g, 'module.exports = ');
  const module = { exports: {} };
  cache[file] = module;
  const fn = new Function('module', 'exports', '__load', 'require', src);
  fn(module, module.exports, (m) => load(m, path.dirname(file)), require);
  return module.exports;
}
const src = path.join(repo, 'js', 'src');
const utils = load('./utils.js', src);
const tyr = load('./tyrving_score.js', src);
const qk = load('./qkids_score.js', src);
const F = {
  ru: (a) => utils.roundUpStrNum(a[0], a[1]),
  ft: (a) => utils.formatSecondsAsTime(a[0], a[1]),
  ph: (a) => utils.parseHms(a[0]),
  ht: (a) => utils.isHandTiming(a[0]),
  ne: (a) => utils.normalizeEventCode(a[0]),
  ty: (a) => tyr.tyrvingScore(a[0], a[1], a[2], a[3]),
  qk: (a) => qk.qkidsScore(a[0], a[1], a[2]),
};
const lines = fs.readFileSync(process.argv[3], 'utf8').split('\n');
const out = [];
for (const line of lines) {
  if (!line) continue;
  const c = JSON.parse(line);
  let r;
  try {
    const v = F[c.f](c.a);
    if (typeof v === 'number') r = Number.isFinite(v) ? { t: 'num', v: v } : { t: 'nonfinite' };
    else if (typeof v === 'string') r = { t: 'str', v: v };
    else if (typeof v === 'boolean') r = { t: 'bool', v: v };
    else r = { t: 'other', v: String(v) };
  } catch (e) {
    r = { t: 'exc' };
  }
  out.push(JSON.stringify(r));
}
fs.writeFileSync(process.argv[4], out.join('\n') + '\n');
