"""C17 - implement weights and weight-specific codes stay inside the vocabulary.

get_implement_weight / get_specific_event_code are run for {SP, DT, HT, JT, WT} x {M, F} x every
age-group label calc_uka_age_group can produce (plus U23, even-year labels and arbitrary others), for
every generated non-throw code (pass-through), and the key sets of every scoring / age-grading table
are collected; Trace_Implements.tla (on CodeText.tla: membership decided by TLC from the live NFAs)
checks validity, normal form, weight equality, band monotonicity and key membership."""
import sys, random
from . import common, lang
from .common import Report, Scratch, MachineryError

PRODUCED = ['U13', 'U15', 'U17', 'U20', 'SEN'] + ['V%d' % a for a in range(35, 125, 5)]
OTHER = ['U9', 'U11', 'U14', 'U16', 'U18', 'U23', 'XYZ', '', 'v40', 'V', 'V7', 'W35', 'Senior']


VARIANTS = [f(l) for l in ['U13', 'U17', 'U20', 'SEN'] + ['V%d' % a for a in range(35, 125, 5)]
            for f in (str.lower, lambda x: ' ' + x.lower(), lambda x: x + ' ', lambda x: x.capitalize() if x == 'SEN' else x.lower() + ' ')]


def _spec_pass(order):
    common.use_repo()
    from athlib import get_implement_weight, get_specific_event_code, normalize_event_code
    recs, desc = [], []
    if order == 'canonical_first':
        labels = PRODUCED + OTHER + VARIANTS
    elif order == 'variants_first':
        labels = VARIANTS + OTHER + PRODUCED
    elif order == 'reversed':
        labels = list(reversed(PRODUCED + OTHER + VARIANTS))
    else:
        labels = []
        for i, l in enumerate(PRODUCED):
            labels += [' ' + l.lower(), l, l.lower(), OTHER[i % len(OTHER)]]
    for ev in ('SP', 'DT', 'HT', 'JT', 'WT'):
        for g in 'MF':
            for ag in labels:
                try:
                    w = get_implement_weight(ev, g, ag)
                except Exception as e:
                    w = '!' + type(e).__name__
                try:
                    code = get_specific_event_code(ev, g, ag)
                    out = 'ok' if isinstance(code, str) else 'other'
                    code = code if isinstance(code, str) else ''
                except Exception as e:
                    code, out = '', type(e).__name__
                try:
                    norm = normalize_event_code(code) if out == 'ok' else ''
                except Exception:
                    norm = '\x00'
                recs.append({'k': 'spec', 'ev': lang.cps(ev), 'w': lang.cps(w if isinstance(w, str) else '?'), 'code': lang.cps(code),
                             'out': out, 'norm': lang.cps(norm), 'produced': ag in PRODUCED})
                desc.append('[%s] get_specific_event_code(%r, %r, %r) -> %s %r (weight %r)' % (order, ev, g, ag, out, code, w))
            ws = []
            for a in range(35, 125, 5):
                w = get_implement_weight(ev, g, 'V%d' % a)
                try:
                    ws.append(int(round(float(w) * 100)))
                except (TypeError, ValueError):
                    ws.append(-1)
            recs.append({'k': 'band', 'ws': ws})
            desc.append('[%s] masters weights of %s %s along V35..V120: %s' % (order, ev, g, ws))
    return recs, desc


def run(tier):
    rep = Report('C17', tier, 'model_checking')
    rng = random.Random(common.seed() + 17)
    with Scratch('C17') as sc:
        tr, specdir, codes, near, pats = lang.generate(sc, rep)
        common.use_repo()
        import athlib
        from athlib import get_implement_weight, get_specific_event_code, normalize_event_code, check_event_code
        recs, desc = [], []
        # The (event, gender, label) domain is walked in several orders, each in a process of its own: the library's
        # own labels first; spelling variants of those labels (lower case, padded) first; interleaved; reversed.  A
        # specific code is a function of its arguments: what an earlier call with a similar label left behind must not
        # reach a later one (every record is judged by the same clauses, whatever the order).
        from multiprocessing import get_context
        with get_context('fork').Pool(4, maxtasksperchild=1) as pool:
            for part in pool.map(_spec_pass, ['canonical_first', 'variants_first', 'interleaved', 'reversed'], chunksize=1):
                recs += part[0]
                desc += part[1]
        others = [c for c in sorted(set(codes) | set(lang.REALISTIC)) if c not in ('SP', 'DT', 'HT', 'JT', 'WT')]
        for c in others:
            g, ag = rng.choice('MF'), rng.choice(PRODUCED + OTHER)
            try:
                r = get_specific_event_code(c, g, ag)
                out = 'ok' if isinstance(r, str) else 'other'
                r = r if isinstance(r, str) else ''
            except Exception as e:
                r, out = '', type(e).__name__
            recs.append({'k': 'pass', 'ev': lang.cps(c), 'code': lang.cps(r), 'out': out})
            desc.append('get_specific_event_code(%r, %r, %r) -> %s %r' % (c, g, ag, out, r))
        m = sys.modules
        # the tables are reached by their module-level names; one that is no longer kept under its name is not observed
        sources = {
            'combined events': lambda: [o['event_code'] for o in m['athlib.athlon_score']._scoring_table],
            'hungarian': lambda: [f[2] for f in m['athlib.hungarian_score'].FACTORS],
            'tyrving': lambda: [e for gg in m['athlib.tyrving_score']._tyrvingTables.values() for e in gg],
            'quadkids': lambda: [e for gg in m['athlib.qkids_score']._qkidsTables.values() for e in gg],
            'sportshall': lambda: list(m['athlib.sportshall_score'].load_data().keys()),
            'bulgarian': lambda: [k[4:] for k in m['athlib.bulgarian_score'].scores],
            'wma 2015': lambda: [r[0] for gg in 'mf' for r in athlib.ag2015.get_data()[gg]],
            'wma 2023': lambda: [r[0] for gg in 'mf' for r in athlib.ag2023.get_data()[gg]],
            'wma combined events': lambda: [r[0] for gg in 'mf' for r in athlib.aag.get_data()[gg]],
        }
        tables = {}
        for nm, src in sources.items():
            try:
                tables[nm] = list(src())
            except Exception as e:
                rep.notes.append('the %s table could not be read under its module-level name (%s): its keys are not observed in this run' % (nm, type(e).__name__))
        nkeys = 0
        for nm, keys in tables.items():
            for kx in sorted({str(x) for x in keys}):
                recs.append({'k': 'key', 's': lang.cps(kx), 'chk': bool(check_event_code(kx))})
                desc.append('%s table key %r' % (nm, kx))
                nkeys += 1
        rep.count('evaluations', len(recs))
        reports, outs = common.validate_records(specdir, sc, 'Trace_Implements', recs)
        for r in outs:
            rep.absorb_tlc(r, traces=1)
        for pr in reports:
            x = recs[pr['index']]
            for cl in pr['clauses']:
                rep.add_violation('%s:%s' % (cl, desc[pr['index']].split('] ', 1)[-1][:70]), '%s: %s' % (cl, desc[pr['index']]), {'what': desc[pr['index']]})
        rep.setcov('records', dict(specific=sum(1 for x in recs if x['k'] == 'spec'), passthrough=len(others), bands=10, table_keys=nkeys))
        rep.setcov('distinct_nontrivial', len(recs))
        rep.setcov('rule', 'distinct (event, gender, age group) triples, pass-through codes and table keys')
        rep.setcov('exhaustive', True)
        rep.sample(desc[0]); rep.sample(desc[200]); rep.sample(desc[-1])
    rep.assumptions += ['labels the library can produce: U13..U20, SEN, V35..V120 (calc_uka_age_group) - a weight must exist for them; other labels only need a valid code when a weight exists',
                        'U9/U11 have no standard throwing implements in the table and are treated as other labels']
    return rep.finish()


def replay(rec):
    print(rec['replay']['what'])
    return 0
