"""Extension (not a listed property, not in MANIFEST.json): js/src/patterns.js against athlib/codes.py.

patterns.js is *generated* from athlib/codes.py (scripts/make-patterns-js.py) and carries the JavaScript side's copy of
every exported pattern.  Whether the two copies accept the same strings is a question about two regular languages, so
it is decided the way C04 decides its clauses: every JavaScript regex literal is read from the file, rewritten into the
equivalent Python syntax under *JavaScript semantics* (`\\d` = [0-9], `\\s` = the ECMAScript WhiteSpace + LineTerminator
set, `$` = end of input only), translated to an NFA next to the live Python pattern of the same name, and TLC explores
the product automaton of all pairs over the common partition of Unicode (MC_PortPatterns: EventCodes.tla + the
invariant EmitMismatch).  For every pattern the verdict is "same language" or a shortest string on which the two
differ; every witness is confirmed on both real engines (CPython re, node RegExp) - a disagreement between an NFA and
its engine is a machinery failure.  Informational: writes evidence/XPAT.json, exits 0 unless the machinery fails."""
import os, re, json, subprocess, shutil
from . import common, rx, c04
from .common import Report, Scratch, MachineryError

# ECMAScript \s: WhiteSpace (TAB VT FF SP NBSP ZWNBSP USP) + LineTerminator (LF CR LS PS); USP = Unicode Zs
JS_SPACE = '\\t\\n\\x0b\\x0c\\r \\xa0\\u1680\\u2000-\\u200a\\u2028\\u2029\\u202f\\u205f\\u3000\\ufeff'


def js_literals(path):
    out = {}
    with open(path) as f:
        for line in f:
            m = re.match(r'^var (PAT_\w+) = /(.*)/([a-z]*);\s*$', line)
            if m:
                out[m.group(1)] = (m.group(2), m.group(3))
    return out


def js_to_py(src):
    """Rewrite a JavaScript regex source into Python syntax with the same meaning under JavaScript semantics."""
    out, i, in_class = [], 0, False
    while i < len(src):
        ch = src[i]
        if ch == '\\' and i + 1 < len(src):
            nx = src[i + 1]
            if nx == 'd':
                out.append('0-9' if in_class else '[0-9]')
            elif nx == 's':
                out.append(JS_SPACE if in_class else '[' + JS_SPACE + ']')
            elif nx in 'DSwWbB':
                raise MachineryError('unsupported JavaScript escape \\%s' % nx)
            elif nx == '/':
                out.append('/')
            else:
                out.append(ch + nx)
            i += 2
            continue
        if in_class:
            if ch == ']':
                in_class = False
            out.append(ch)
        elif ch == '[':
            in_class = True
            out.append(ch)
        elif ch == '$':
            out.append('\\Z')
        else:
            out.append(ch)
        i += 1
    return ''.join(out)


def node_test(cases):
    """[(src, flags, string)] -> [bool] by the real JavaScript engine."""
    if not cases:
        return []
    script = ('const cs = JSON.parse(require("fs").readFileSync(0, "utf8"));'
              'console.log(JSON.stringify(cs.map(([s, f, t]) => new RegExp(s, f).test(t))));')
    p = subprocess.run(['node', '-e', script], input=json.dumps(cases).encode('utf8'), stdout=subprocess.PIPE, stderr=subprocess.PIPE, timeout=600)
    if p.returncode != 0:
        raise MachineryError('node failed: %s' % p.stderr.decode()[-400:])
    return json.loads(p.stdout.decode())


def run(tier):
    rep = Report('XPAT', tier, 'model_checking')
    if not shutil.which('node'):
        raise MachineryError('node is not available')
    py = c04.live_patterns()
    js = js_literals(os.path.join(common.REPO, 'js', 'src', 'patterns.js'))
    pairs = sorted(set(py) & set(js))
    pats = dict(py)
    for n in pairs:
        src, flags = js[n]
        if set(flags) - set('i'):
            raise MachineryError('unsupported JavaScript flags on %s: %r' % (n, flags))
        pats['JS_' + n] = re.compile(js_to_py(src), re.I if 'i' in flags else 0)
    with Scratch('XPAT') as sc:
        plain_cps = frozenset(range(0x20, 0x7f)) | {9}
        tr = rx.translate(pats, extra_split=(plain_cps,))
        plain_classes = [k + 1 for k, c in enumerate(tr['classes']) if k + 1 != tr['other'] and set(c['members']) <= plain_cps]
        specdir = common.prepare_spec_dir(sc)
        with open(os.path.join(specdir, 'EventCodesNFA.tla'), 'w') as f:
            f.write(rx.tla_module(tr))
        with open(os.path.join(specdir, 'MC_PortPatterns.tla'), 'w') as f:
            f.write('---- MODULE MC_PortPatterns ----\n'
                    '(* js/src/patterns.js vs athlib/codes.py: the product automaton of every (Python, JavaScript) pattern pair; *)\n'
                    '(* EmitMismatch prints the string read so far whenever the two copies of some pattern disagree on it.      *)\n'
                    'EXTENDS EventCodes\n'
                    'PairNames == {%s}\n'
                    'Mismatch == {n \\in PairNames : (n \\in Accepted) # (("JS_" \\o n) \\in Accepted)}\n'
                    'EmitMismatch == Mismatch = {} \\/ PrintT("@@" \\o ToJson([w |-> w, m |-> Mismatch]))\n'
                    '\\* the same question on plain text only (printable ASCII and TAB): what remains is not a matter of how the two\n'
                    '\\* engines read \\d, \\s and $ but of the two files having drifted apart\n'
                    'PlainClasses == {%s}\n'
                    'SpecPlain == Init /\\ [][\\E c \\in PlainClasses : Read(c)]_<<live, sticky, prevEnd, lastNL, w>>\n'
                    '====\n' % (', '.join('"%s"' % n for n in pairs), ', '.join(str(c) for c in plain_classes)))
        with open(os.path.join(specdir, 'MC_PortPatterns.cfg'), 'w') as f:
            f.write('SPECIFICATION Spec\nVIEW View\nINVARIANT EmitMismatch\nCHECK_DEADLOCK FALSE\n')
        with open(os.path.join(specdir, 'MC_PortPatterns_plain.cfg'), 'w') as f:
            f.write('SPECIFICATION SpecPlain\nVIEW View\nINVARIANT EmitMismatch\nCHECK_DEADLOCK FALSE\n')
        r = common.run_tlc(specdir, 'MC_PortPatterns', 'MC_PortPatterns.cfg', workers=8, heap='6g', timeout=3000)
        rep.absorb_tlc(r)
        r2 = common.run_tlc(specdir, 'MC_PortPatterns', 'MC_PortPatterns_plain.cfg', workers=8, heap='6g', timeout=3000)
        rep.absorb_tlc(r2)
        shortest, shortest_plain = {}, {}
        for src_, dst_ in ((r, shortest), (r2, shortest_plain)):
            for pr in src_.printed:
                for n in pr['m']:
                    if n not in dst_ or len(pr['w']) < len(dst_[n]):
                        dst_[n] = pr['w']
        # confirm every witness on both real engines
        cases, meta = [], []
        for kind, table in (('any', shortest), ('plain', shortest_plain)):
            for n, w in sorted(table.items()):
                for variant in range(2):
                    s = c04.instantiate(tr, w, variant)
                    cases.append((js[n][0], js[n][1], s))
                    meta.append((n, s, w, kind))
        jsres = node_test(cases)
        verdicts = {n: {'same_language': True, 'same_on_plain_text': True} for n in pairs}
        seen = set()
        for (n, s, w, kind), jr in zip(meta, jsres):
            pr_ = py[n].match(s) is not None
            want_py = rx.simulate(tr, n, w)
            want_js = rx.simulate(tr, 'JS_' + n, w)
            if pr_ != want_py:
                raise MachineryError('translator / re disagreement on %r for %s' % (s, n))
            if jr != want_js:
                raise MachineryError('JavaScript-semantics NFA / node disagreement on %r for %s (node %s)' % (s, n, jr))
            if (n, kind) not in seen:
                seen.add((n, kind))
                if kind == 'any':
                    verdicts[n].update({'same_language': False, 'shortest_witness': s, 'python_accepts': pr_, 'javascript_accepts': jr})
                else:
                    verdicts[n].update({'same_on_plain_text': False, 'shortest_plain_witness': s, 'python_accepts_plain': pr_, 'javascript_accepts_plain': jr})
        rep.count('evaluations', 2 * len(cases))
        rep.setcov('pattern_pairs', len(pairs))
        rep.setcov('python_only', sorted(set(py) - set(js)))
        rep.setcov('javascript_only', sorted(set(js) - set(py)))
        rep.setcov('code_point_classes', len(tr['classes']))
        rep.setcov('verdicts', verdicts)
        rep.setcov('exhaustive', True)
        rep.setcov('distinct_nontrivial', r.distinct)
        rep.setcov('rule', 'product-automaton states of all (Python, JavaScript) pattern pairs')
        rep.setcov('traces_validated_against_impl', len(cases))
        same = [n for n in pairs if verdicts[n]['same_language']]
        samep = [n for n in pairs if verdicts[n]['same_on_plain_text']]
        print('XPAT: %d pattern pairs; %d / %d product states (all of Unicode / plain text)' % (len(pairs), r.distinct, r2.distinct))
        print('  same language over all of Unicode: %d of %d (engines differ on Unicode digits, some spaces and a final newline)' % (len(same), len(pairs)))
        print('  same language on plain text (printable ASCII, TAB): %d of %d' % (len(samep), len(pairs)))
        for n in pairs:
            v = verdicts[n]
            if not v['same_on_plain_text']:
                print('  %-24s has drifted, e.g. %r: python %s, javascript %s' % (n, v['shortest_plain_witness'], 'accepts' if v['python_accepts_plain'] else 'rejects',
                                                                                'accepts' if v['javascript_accepts_plain'] else 'rejects'))
            elif not v['same_language']:
                print('  %-24s engine semantics only, e.g. %r: python %s, javascript %s' % (n, v['shortest_witness'], 'accepts' if v['python_accepts'] else 'rejects',
                                                                                           'accepts' if v['javascript_accepts'] else 'rejects'))
        for n in (pairs[0], pairs[-1]):
            rep.sample({'pattern': n, 'verdict': verdicts[n]})
    rep.assumptions += ['informational extension: results are not verdicts on a listed property',
                        'JavaScript semantics modelled: \\d = [0-9], \\s = ECMAScript WhiteSpace + LineTerminator, $ = end of input (no m flag), no u flag']
    rep.violations = []
    rep.drift = []
    return rep.finish()


def replay(rec):
    return 0
