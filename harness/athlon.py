"""Engine for C01 / C09 (and the combined-events part of C05): sweeps of the real
athlon_score / athlon_performance_needed, judged by Trace_Athlon.tla against the exact reference."""
import json, os, random
from multiprocessing import Pool
from . import common
from .common import Report, Scratch, MachineryError

C01_CLAUSES = {'points_differ_from_exact_formula', 'raised_instead_of_score', 'age_handling_differs', 'unknown_pair_not_none'}
C05_CLAUSES = {'better_mark_scores_fewer_points', 'raised_instead_of_score'}
C09_CLAUSES = {'negative_target_differs_from_zero_target', 'needed_mark_scores_less_than_target', 'next_worse_mark_also_reaches_target', 'needed_mark_off_grid',
               'unknown_pair_not_none'}


def ref():
    with open(os.path.join(common.REFDATA, 'athlon_coeffs.json')) as f:
        return json.load(f)


def enc(v):
    if v is None:
        return -1
    if isinstance(v, bool) or not isinstance(v, int) or v < 0:
        return -200
    return v


def call(fn, *a, **k):
    try:
        return enc(fn(*a, **k))
    except Exception:
        return -100


def _seg_job(job):
    common.use_repo()
    import athlib
    fn = athlib.athlon_score
    g, e, age, esaa, form, lo, hi, step = job[:8]
    cg, ce = g, e                       # the row (canonical spelling); g, e = the spelling used in the calls
    if len(job) > 8:
        g, e = job[8], job[9]
    segs = []
    prev = None
    n = 0
    asked = []
    kw = {}
    if age:
        kw['age'] = age
    if esaa:
        kw['esaa'] = True
    for c in range(lo, hi + 1, step):
        if form == 'int':
            if c % 100:
                continue
            v = c // 100
        else:
            v = c / 100.0
        if n % 64 == 32:
            # interference: the same mark asked with the option toggled, at another age and without an age just before
            # the recorded call - an answer must not depend on what was asked before (results discarded)
            call(fn, g, e, v, **dict(kw, esaa=not esaa))
            call(fn, g, e, v, **dict(kw, age=(age or 40) + 5))
            if age:
                call(fn, g, e, v)
            # ... and calls the function must refuse (unknown gender / event, with and without an age): a refusal must
            # not leave anything behind either (seed C01-g: an error path remembered the event as "no factors")
            call(fn, 'W', e, v, age=(age or 50))
            call(fn, 'W', e, v)
            call(fn, g, 'NOSUCH', v, age=(age or 50))
            call(fn, g, e, 'x', age=(age or 50))
        r = call(fn, g, e, v, **kw)
        n += 1
        if prev is not None and prev[2] == r:
            prev[1] = c
        else:
            prev = [c, c, r]
            segs.append(prev)
        asked.append((c, v, len(segs)))
    # second pass, in the opposite order, over a sample of the same marks (the first ones - asked before any
    # interference call - and a stride over the rest): "a better mark never scores fewer points" relates calls made at
    # different times, so a row changed by an earlier call (an option, another age) must show up against the first pass
    pick = sorted(set(list(range(0, min(len(asked), 24), 3)) + list(range(0, len(asked), max(1, len(asked) // 40)))), reverse=True)
    re_ = []
    for i in pick:
        c, v, j = asked[i]
        re_.append([c, call(fn, g, e, v, **kw), j])
    return {'k': 'seg', 'g': cg, 'e': ce, 'age': age or 0, 'esaa': bool(esaa), 'form': form, 'segs': segs, 're': re_, 'n': n + len(re_),
            'sg': g, 'se': e}


def _age_job(job):
    common.use_repo()
    import athlib
    g, e, c, esaa = job
    vals = []
    for a in range(1, 126):
        if a % 16 == 3:          # refused calls in between (results discarded): nothing may be left behind
            call(athlib.athlon_score, 'W', e, c / 100.0, age=a)
            call(athlib.athlon_score, g, 'NOSUCH', c / 100.0, age=a)
        vals.append(call(athlib.athlon_score, g, e, c / 100.0, age=a, **({'esaa': True} if esaa else {})))
    return {'k': 'age', 'g': g, 'e': e, 'c': c, 'esaa': bool(esaa), 'vals': vals, 'n': 125}


def _need_job(job):
    common.use_repo()
    import athlib
    cg, ce, known, targets = job[:4]
    g, e = (job[4], job[5]) if len(job) > 4 else (cg, ce)       # the spelling used in the calls
    out = []
    try:
        p0 = athlib.athlon_performance_needed(g, e, 0)
        perf0 = int(round(p0 * 100)) if p0 is not None else -1
    except Exception:
        perf0 = -2
    for i, t in enumerate(targets):
        if i % 50 == 7:              # refused calls in between (results discarded): nothing may be left behind
            for a in (('W', e, t), (g, 'NOSUCH', t), (g, e, 'x')):
                try:
                    athlib.athlon_performance_needed(*a)
                except Exception:
                    pass
            call(athlib.athlon_score, 'W', e, 10.0, age=50)
        try:
            p = athlib.athlon_performance_needed(g, e, t)
        except Exception:
            out.append({'k': 'need', 'sg': g, 'se': e, 'g': cg, 'e': ce, 't': t, 'known': known, 'none': False, 'ongrid': False, 'perf': 0,
                        'sAt': -100, 'sWorse': -100, 'n': 1})
            continue
        if p is None or not known:
            out.append({'k': 'need', 'sg': g, 'se': e, 'g': cg, 'e': ce, 't': t, 'known': known, 'none': p is None, 'ongrid': False, 'perf': 0,
                        'sAt': -1, 'sWorse': -1, 'n': 1})
            continue
        pc = int(round(p * 100))
        ongrid = abs(p * 100 - pc) < 1e-6
        track = athlib.athlon_score.__globals__['unit_name'](e) == 'seconds'
        worse = (pc + 1) / 100.0 if track else (pc - 1) / 100.0
        out.append({'k': 'need', 'sg': g, 'se': e, 'g': cg, 'e': ce, 't': t, 'known': True, 'none': False, 'ongrid': ongrid, 'perf': pc, 'perf0': perf0,
                    'sAt': call(athlib.athlon_score, g, e, p), 'sWorse': call(athlib.athlon_score, g, e, worse), 'n': 3})
    return out


def rows():
    R = ref()
    out = []
    for k, v in sorted(R['keys'].items()):
        if k.endswith('-ESAA'):
            continue
        g, e = k.split('-', 1)
        out.append((g, e, v))
    return R, out


def limits(v):
    """centi-mark sweep range for a key: 0 .. past the zero point (track) / past the 1600-point mark (field)"""
    if v['kind'] == 'track':
        return 0, v['zero'] + 200
    return 0, v['zero'] + v['nmax']


def sweep_jobs(quick, rng, with_age=True):
    R, rws = rows()
    jobs, age_jobs = [], []
    factor_events = set(R['factors']['m'])
    bands = [35, 40, 45, 50, 55, 60, 65, 70, 75, 80, 85, 90, 95, 100, 105, 110]
    CH = 60000
    for g, e, v in rws:
        lo, hi = limits(v)
        for a in range(lo, hi + 1, CH):
            jobs.append((g, e, None, False, 'float', a, min(hi, a + CH - 1), 1))
        jobs.append((g, e, None, False, 'int', lo, hi, 100))
        if (g, e) == ('M', '800'):
            for a in range(lo, hi + 1, CH):
                jobs.append((g, e, None, True, 'float', a, min(hi, a + CH - 1), 1))
        else:
            jobs.append((g, e, None, True, 'float', lo, hi, 997))
        if not with_age:
            continue
        has = e in factor_events or e in ('80H', '100H', '110H', '200H', '300H', '400H')
        step = (211 if quick else 23) if has else 4001
        for b in (bands if has else [50]):
            for off in (0, 3):
                jobs.append((g, e, b + off, False, 'float', lo + (b * 7 + off) % step, hi, step))
        # an age below the first masters band leaves the score unadjusted - whether or not the masters table knows the event
        for b in (1, 20, 34):
            jobs.append((g, e, b, False, 'float', lo + (b * 13) % 1999, hi, 1999 if quick else 211))
        # the row is found whatever the letter case of gender and event ('hj', 'Hj', 'm'): spelled variants, strided
        if any(ch.isalpha() for ch in e):
            for sg, se in ((g.lower(), e.lower()), (g, e.capitalize()), (g.lower(), e)):
                jobs.append((g, e, None, False, 'float', lo + 7, hi, 1499 if quick else 97, sg, se))
        else:
            jobs.append((g, e, None, False, 'float', lo + 7, hi, 1499 if quick else 97, g.lower(), e))
        marks = sorted(rng.sample(range(lo, hi), 6 if quick else 40))
        for c in marks:
            age_jobs.append((g, e, c, (g, e) == ('M', '800') and c % 2 == 0))
    # veterans' hurdles remap: 80H / 100H exist only through the remap
    for g, e in (('F', '80H'), ('M', '80H'), ('M', '100H')):
        jobs.append((g, e, None, False, 'float', 0, 3000, 1))
        if with_age:
            for b in (40, 55, 70, 85):
                jobs.append((g, e, b, False, 'float', 0, 3000, 7))
            age_jobs.append((g, e, 1500, False))
    return jobs, age_jobs


UNKNOWN = [('M', 'NA'), ('M', '999'), ('X', '100'), ('M', 'SPB'), ('F', '110H'), ('F', '600'), ('M', 'XC'), ('Q', 'HJ')]


def run(pid, tier):
    rep = Report(pid, tier, 'model_checking')
    quick = tier == 'quick'
    rng = random.Random(common.seed() * 101 + int(pid[1:]))
    want = {'C01': C01_CLAUSES, 'C09': C09_CLAUSES}[pid]
    with Scratch(pid) as sc:
        specdir = common.prepare_spec_dir(sc)
        r = common.run_tlc(specdir, 'MC_Athlon', 'MC_Athlon.cfg', heap='6g')
        if r.violated:
            raise MachineryError('the combined-events reference violates %s' % r.violated)
        rep.absorb_tlc(r)
        recs = []
        with Pool(common.NCPU) as pool:
            if pid == 'C01':
                jobs, age_jobs = sweep_jobs(quick, rng)
                recs += pool.map(_seg_job, jobs, chunksize=2)
                recs += pool.map(_age_job, age_jobs, chunksize=4)
                for g, e in UNKNOWN:
                    for age in (None, 50, 20):
                        for c in (1000, 0, 55555):
                            common.use_repo()
                            import athlib
                            recs.append({'k': 'unk', 'g': g, 'e': e, 'c': c, 'age': age or 0,
                                         'val': call(athlib.athlon_score, g, e, c / 100.0, **({'age': age} if age else {})), 'n': 1})
            else:
                _, rws = rows()
                njobs = [(g, e, True, list(range(a, min(a + 256, 1501)))) for g, e, v in rws for a in range(-10, 1501, 256)]
                njobs += [(g, e, False, [-5, 0, 1, 500, 1500]) for g, e in UNKNOWN ]
                # "for every scored event and gender": the row is found whatever the letter case ('hj', 'Hj', 'm')
                for g, e, v in rws:
                    sp = [(g.lower(), e.lower()), (g, e.capitalize()), (g.lower(), e)] if any(ch.isalpha() for ch in e) else [(g.lower(), e)]
                    for k, (sg, se) in enumerate(sp):
                        njobs.append((g, e, True, list(range(-3 + k, 1501, 41)), sg, se))
                for part in pool.map(_need_job, njobs, chunksize=2):
                    recs += part
        rep.count('evaluations', sum(x['n'] for x in recs))
        slim = [{k: v for k, v in x.items() if k not in ('n', 'form', 'sg', 'se')} for x in recs]
        reports, outs = common.validate_records(specdir, sc, 'Trace_Athlon', slim, timeout=3000)
        for r in outs:
            rep.absorb_tlc(r, traces=1)
        drift_n = 0
        for pr in reports:
            x = recs[pr['index']]
            if pr['kind'] == 'drift':
                if 'harness_run_index' in pr['clauses']:
                    raise MachineryError('second-pass record carries a wrong run index')
                drift_n += 1
                continue
            for cl in pr['clauses']:
                if cl not in want:
                    continue
                at = pr.get('at') or []
                if x['k'] == 'seg':
                    what = '%s: athlon_score(%r, %r, %s%s%s) first differing run %s' % (
                        cl, x.get('sg', x['g']), x.get('se', x['e']), 'centi-marks' + (' (int form)' if x['form'] == 'int' else ''),
                        ', age=%d' % x['age'] if x['age'] else '', ', esaa' if x['esaa'] else '', at)
                    sig = '%s:%s:%s:%s' % (cl, x['form'], 'age' if x['age'] else 'noage', 'val%d' % at[2] if at and at[2] < 0 else 'value')
                    replay = {'fn': 'score', 'g': x.get('sg', x['g']), 'e': x.get('se', x['e']), 'age': x['age'], 'esaa': x['esaa'], 'c': at[0] if at else 0, 'form': x['form']}
                    if x.get('se', x['e']) != x['e'] or x.get('sg', x['g']) != x['g']:
                        sig += ':spelled'
                elif x['k'] == 'age':
                    a = at[0] if at else 0
                    what = '%s: athlon_score(%r, %r, %.2f, age=%d) -> %s' % (cl, x['g'], x['e'], x['c'] / 100.0, a, x['vals'][a - 1] if a else '?')
                    sig = '%s:%s' % (cl, 'under35' if a < 35 else 'over114' if a > 114 else 'band')
                    replay = {'fn': 'score', 'g': x['g'], 'e': x['e'], 'age': a, 'esaa': x['esaa'], 'c': x['c'], 'form': 'float'}
                elif x['k'] == 'unk':
                    what = '%s: athlon_score(%r, %r, %.2f, age=%s) -> %s' % (cl, x['g'], x['e'], x['c'] / 100.0, x['age'], x['val'])
                    sig = '%s:%s' % (cl, 'age' if x['age'] else 'noage')
                    replay = {'fn': 'score', 'g': x['g'], 'e': x['e'], 'age': x['age'], 'esaa': False, 'c': x['c'], 'form': 'float'}
                else:
                    what = '%s: athlon_performance_needed(%r, %r, %d) -> %.2f scoring %s; next-worse mark scores %s' % (
                        cl, x.get('sg', x['g']), x.get('se', x['e']), x['t'], x['perf'] / 100.0, x['sAt'], x['sWorse'])
                    sig = '%s:%s-%s:%d' % (cl, x.get('sg', x['g']), x.get('se', x['e']), x['t'])
                    replay = {'fn': 'needed', 'g': x.get('sg', x['g']), 'e': x.get('se', x['e']), 't': x['t']}
                rep.add_violation(sig, what, replay)
        if drift_n:
            rep.notes.append('%d returned marks differ from the exact threshold while satisfying the relation (diagnostic only)' % drift_n)
            if pid == 'C09':
                rep.add_drift('%d returned marks differ from the exact threshold' % drift_n)
        kinds = {}
        for x in recs:
            kinds[x['k']] = kinds.get(x['k'], 0) + 1
        rep.setcov('records', kinds)
        rep.setcov('distinct_nontrivial', sum(len(x.get('segs', [1])) for x in recs))
        rep.setcov('rule', 'distinct runs of constant outcome along the mark axis (each a score step observed) / distinct targets')
        rep.setcov('exhaustive', pid == 'C09' or not quick)
        for x in recs[:1] + recs[len(recs) // 2:len(recs) // 2 + 1] + recs[-1:]:
            y = dict(x)
            if 'segs' in y:
                y['segs'] = y['segs'][:5]
            if 'vals' in y:
                y['vals'] = y['vals'][30:40]
            rep.sample(y)
    rep.assumptions += ['thresholds of floor(A*d^X) computed exactly with Python integers (refdata/gen_athlon_ref.py) from the pinned coefficient snapshot',
                        'a scored event without WMA factor combined with an age is a lenient region (only "no exception" is checked)']
    return rep.finish()


def replay(rec):
    common.use_repo()
    import athlib
    r = rec['replay']
    if r['fn'] == 'needed':
        p = athlib.athlon_performance_needed(r['g'], r['e'], r['t'])
        print('athlon_performance_needed(%r, %r, %r) -> %r; score of it %r' % (r['g'], r['e'], r['t'], p, athlib.athlon_score(r['g'], r['e'], p) if p is not None else None))
        return 0
    for c in range(r['c'] - 1, r['c'] + 2):
        v = c // 100 if r['form'] == 'int' else c / 100.0
        kw = {}
        if r['age']:
            kw['age'] = r['age']
        if r['esaa']:
            kw['esaa'] = True
        try:
            print('athlon_score(%r, %r, %r, %s) -> %r' % (r['g'], r['e'], v, kw, athlib.athlon_score(r['g'], r['e'], v, **kw)))
        except Exception as ex:
            print('athlon_score(%r, %r, %r, %s) raised %s' % (r['g'], r['e'], v, kw, type(ex).__name__))
    return 0
