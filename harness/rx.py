"""Regular expression -> epsilon-free NFA over a finite partition of Unicode, as a TLA+ data module.

The patterns are taken live from athlib.codes on every run and parsed with the interpreter's own
re._parser.  Supported constructs: literals, classes (ranges, \\d, \\s, negation), ANY, bounded and
unbounded greedy/lazy repeats, groups, alternation, conditionals on a group (?(n)yes|no), ^ / \\A, $ (Python
semantics: at the end or just before a final newline) and \\Z; possessive repeats of a single character set
(`\\d++`, `\\s*+`, `[xX]?+`: exact - the repeat takes all it can and the next symbol must not belong to the set unless
the upper bound is reached).  Other atomic constructs (`(?>...)`, possessive repeats of longer bodies) are translated as
their backtracking counterparts and the pattern is listed in tr['approx']: its automaton over-approximates the language
and callers must not treat a disagreement with `re` on such a pattern as their own fault.  Anything else ->
MachineryError (exit 2).

Acceptance is that of `pattern.match(s) is not None` (anchored at the start, prefix match).
"""
import re, sys, unicodedata
from . import common
from .common import MachineryError

try:
    import re._parser as sre_parse
    import re._constants as sre_c
except ImportError:                      # older interpreters
    import sre_parse
    import sre_constants as sre_c

_DIGITS = None
_SPACES = None
_WORD = None
MAXCP = 0x110000


def digits():
    global _DIGITS
    if _DIGITS is None:
        _DIGITS = frozenset(c for c in range(MAXCP) if unicodedata.category(chr(c)) == 'Nd')
    return _DIGITS


def spaces():
    global _SPACES
    if _SPACES is None:
        _SPACES = frozenset(c for c in range(MAXCP) if chr(c).isspace())
    return _SPACES


class CharSet(object):
    """A set of code points: explicit members, possibly complemented."""
    __slots__ = ('members', 'negated')

    def __init__(self, members, negated=False):
        self.members = frozenset(members)
        self.negated = negated

    def contains(self, cp):
        return (cp in self.members) != self.negated


_ALLCPS = None
_ATOM_CACHE = {}


def _engine_members(op, av, flags):
    """The code points a single-character atom matches - asked of the real engine (one finditer pass over a string of all
    0x110000 code points), so that case folding (`re.I`, with or without `re.A`), `\\d`, `\\s`, `\\w` and their ASCII variants
    are whatever this interpreter's `re` makes of them, not this module's idea of it."""
    global _ALLCPS
    key = (str(op), repr(av), int(flags & (re.IGNORECASE | re.ASCII | re.DOTALL)))
    if key not in _ATOM_CACHE:
        if _ALLCPS is None:
            _ALLCPS = ''.join(map(chr, range(MAXCP)))
        try:
            import re._compiler as sre_compile
        except ImportError:
            import sre_compile
        sub = sre_parse.SubPattern(sre_parse.State())
        sub.append((op, av))
        pat = sre_compile.compile(sub, int(flags & (re.IGNORECASE | re.ASCII | re.DOTALL)) | (0 if flags & re.ASCII else re.UNICODE))
        _ATOM_CACHE[key] = frozenset(ord(m.group()) for m in pat.finditer(_ALLCPS))
    return _ATOM_CACHE[key]


def charset_of(op, av, flags):
    if op is sre_c.LITERAL:
        return CharSet(_engine_members(op, av, flags))
    if op is sre_c.NOT_LITERAL:
        return CharSet(_engine_members(sre_c.LITERAL, av, flags), True)
    if op is sre_c.ANY:
        return CharSet({10}, True) if not (flags & re.DOTALL) else CharSet(set(), True)
    if op is sre_c.IN:
        items = [x for x in av if x[0] is not sre_c.NEGATE]
        neg = len(items) != len(av)
        for o, a in items:
            if o not in (sre_c.LITERAL, sre_c.RANGE, sre_c.CATEGORY):
                raise MachineryError('unsupported class item %s' % o)
        return CharSet(_engine_members(sre_c.IN, items, flags), neg)
    raise MachineryError('not a character set op: %s' % op)


class NFA(object):
    """Thompson construction with eps / BEGIN-eps / END-eps edges."""

    def __init__(self):
        self.n = 0
        self.sym = []      # (src, charset_index, dst)
        self.eps = []      # (src, dst, kind) kind in '', 'B', 'E'

    def new(self):
        self.n += 1
        return self.n - 1


def _cond_groups(items, out):
    """group numbers tested by (?(n)yes|no) anywhere in the parse tree"""
    for op, av in items:
        if op is sre_c.GROUPREF_EXISTS:
            out.add(av[0])
            _cond_groups(av[1], out)
            if av[2] is not None:
                _cond_groups(av[2], out)
        elif op is sre_c.SUBPATTERN:
            _cond_groups(av[3], out)
        elif op is sre_c.BRANCH:
            for alt in av[1]:
                _cond_groups(alt, out)
        elif op in (sre_c.MAX_REPEAT, sre_c.MIN_REPEAT):
            _cond_groups(av[2], out)
    return out


def _expand_conditions(nfa, start, final, refs):
    """(?(n)yes|no) is regular: whether group n has taken part is one bit per tested group.  The construction marks the
    end of every tested group with an ('S', n) edge and guards the two arms with ('G+', n) / ('G-', n); here the NFA is
    multiplied by the sets of groups that have taken part and the marks / guards become plain epsilon edges."""
    import itertools
    refs = sorted(refs)
    subsets = [frozenset(c) for r in range(len(refs) + 1) for c in itertools.combinations(refs, r)]
    out = NFA()
    ident = {}

    def nid(q, G):
        if (q, G) not in ident:
            ident[(q, G)] = out.new()
        return ident[(q, G)]
    s0 = nid(start, frozenset())
    for G in subsets:
        for a, ai, b in nfa.sym:
            out.sym.append((nid(a, G), ai, nid(b, G)))
        for a, b, k in nfa.eps:
            if isinstance(k, tuple):
                tag, g = k
                if tag == 'S':
                    out.eps.append((nid(a, G), nid(b, G | {g}), ''))
                elif tag == 'G+' and g in G:
                    out.eps.append((nid(a, G), nid(b, G), ''))
                elif tag == 'G-' and g not in G:
                    out.eps.append((nid(a, G), nid(b, G), ''))
                elif tag == 'N':
                    out.eps.append((nid(a, G), nid(b, G), k))
            else:
                out.eps.append((nid(a, G), nid(b, G), k))
    f = out.new()
    for G in subsets:
        out.eps.append((nid(final, G), f, ''))
    return out, s0, f


def build(pattern_text, flags, atoms, approx=None):
    tree = sre_parse.parse(pattern_text, flags)
    nfa = NFA()
    if approx is None:
        approx = []
    refs = _cond_groups(tree, set())

    def atom_index(cs):
        key = (cs.members, cs.negated)
        if key not in atoms:
            atoms[key] = (len(atoms), cs)
        return atoms[key][0]

    SCOPED = re.IGNORECASE | re.ASCII | re.DOTALL | re.UNICODE

    def seq(items, s, flags=flags):
        for op, av in items:
            s = node(op, av, s, flags)
        return s

    def node(op, av, s, flags=flags):
        if op in (sre_c.LITERAL, sre_c.NOT_LITERAL, sre_c.ANY, sre_c.IN):
            t = nfa.new()
            nfa.sym.append((s, atom_index(charset_of(op, av, flags)), t))
            return t
        if op is sre_c.SUBPATTERN:
            group, add_flags, del_flags, sub = av
            if (add_flags | del_flags) & ~SCOPED:
                raise MachineryError('scoped inline flags other than a, i, s, u are not supported')
            if add_flags & re.ASCII:
                flags = flags & ~re.UNICODE
            if add_flags & re.UNICODE:
                flags = flags & ~re.ASCII
            flags = (flags | add_flags) & ~del_flags          # (?ai:...), (?-i:...): in force inside the group only
            e = seq(sub, s, flags)
            if group in refs:              # a group some (?(n)..) tests: mark that it has taken part
                t = nfa.new()
                nfa.eps.append((e, t, ('S', group)))
                return t
            return e
        if op is sre_c.GROUPREF_EXISTS:
            g, yes, no = av
            t = nfa.new()
            a = nfa.new()
            nfa.eps.append((s, a, ('G+', g)))
            nfa.eps.append((seq(yes, a, flags), t, ''))
            b = nfa.new()
            nfa.eps.append((s, b, ('G-', g)))
            nfa.eps.append((seq(no if no is not None else [], b, flags), t, ''))
            return t
        if op is sre_c.BRANCH:
            t = nfa.new()
            for alt in av[1]:
                a = nfa.new()
                nfa.eps.append((s, a, ''))
                e = seq(alt, a, flags)
                nfa.eps.append((e, t, ''))
            return t
        if op is getattr(sre_c, 'POSSESSIVE_REPEAT', None):
            lo, hi, sub = av
            if len(sub) == 1 and sub[0][0] in (sre_c.LITERAL, sre_c.NOT_LITERAL, sre_c.ANY, sre_c.IN):
                # exact: as many as possible; leaving the loop before the upper bound needs "next symbol not in the set"
                ai = atom_index(charset_of(sub[0][0], sub[0][1], flags))
                cur = s
                for _ in range(lo):
                    t = nfa.new()
                    nfa.sym.append((cur, ai, t))
                    cur = t
                out = nfa.new()
                if hi is sre_c.MAXREPEAT:
                    a = nfa.new()
                    nfa.eps.append((cur, a, ''))
                    nfa.sym.append((a, ai, a))
                    nfa.eps.append((a, out, ('N', ai)))
                    return out
                if hi - lo > 64:
                    raise MachineryError('repeat bound too large')
                for _ in range(hi - lo):
                    nfa.eps.append((cur, out, ('N', ai)))
                    t = nfa.new()
                    nfa.sym.append((cur, ai, t))
                    cur = t
                nfa.eps.append((cur, out, ''))
                return out
            approx.append('possessive repeat')
            return node(sre_c.MAX_REPEAT, av, s, flags)
        if op is getattr(sre_c, 'ATOMIC_GROUP', None):
            approx.append('atomic group')
            return seq(av, s, flags)
        if op in (sre_c.MAX_REPEAT, sre_c.MIN_REPEAT):
            lo, hi, sub = av
            cur = s
            for _ in range(lo):
                cur = seq(sub, cur, flags)
            if hi is sre_c.MAXREPEAT:
                a = nfa.new()
                nfa.eps.append((cur, a, ''))
                e = seq(sub, a, flags)
                nfa.eps.append((e, a, ''))
                return a
            if hi - lo > 64:
                raise MachineryError('repeat bound too large')
            t = nfa.new()
            nfa.eps.append((cur, t, ''))
            for _ in range(hi - lo):
                cur = seq(sub, cur, flags)
                nfa.eps.append((cur, t, ''))
            return t
        if op is sre_c.AT:
            t = nfa.new()
            if av in (sre_c.AT_BEGINNING, sre_c.AT_BEGINNING_STRING):
                nfa.eps.append((s, t, 'B'))
            elif av is sre_c.AT_END:
                nfa.eps.append((s, t, 'E'))          # `$`: at the end, or just before a final newline
            elif av is sre_c.AT_END_STRING:
                nfa.eps.append((s, t, 'Z'))          # `\Z`: at the very end only
            else:
                raise MachineryError('unsupported anchor %s' % av)
            return t
        raise MachineryError('unsupported regex construct %s in %r' % (op, pattern_text[:60]))

    start = nfa.new()
    final = seq(tree, start)
    if refs:
        return _expand_conditions(nfa, start, final, refs)
    return nfa, start, final


def closure(nfa, states, kinds):
    """plain epsilon closure; ('N', atom) guard edges count as passable"""
    adj = {}
    for a, b, k in nfa.eps:
        if k in kinds or (isinstance(k, tuple) and k[0] == 'N'):
            adj.setdefault(a, []).append(b)
    seen = set(states)
    stack = list(states)
    while stack:
        x = stack.pop()
        for y in adj.get(x, ()):
            if y not in seen:
                seen.add(y)
                stack.append(y)
    return seen


def closure_g(nfa, items, kinds):
    """epsilon closure over (state, F) pairs: F = the atoms the NEXT symbol must not belong to (possessive repeats)"""
    adj = {}
    for a, b, k in nfa.eps:
        if k in kinds:
            adj.setdefault(a, []).append((b, None))
        elif isinstance(k, tuple) and k[0] == 'N':
            adj.setdefault(a, []).append((b, k[1]))
    seen = set(items)
    stack = list(items)
    while stack:
        x, F = stack.pop()
        for y, g in adj.get(x, ()):
            it = (y, F if g is None else F | {g})
            if it not in seen:
                seen.add(it)
                stack.append(it)
    return seen


class EpsFree(object):
    """states 1..n (1 = start); delta[q][(atom, F)] = set of states (F: atoms the symbol must NOT belong to);
    fin_noend / fin_end / fin_endnl flags."""


def eps_free(nfa, start, final, atoms=None, approx=None):
    symout = {}
    for a, ai, b in nfa.sym:
        symout.setdefault(a, []).append((ai, b))
    # END edges must not be followed by consuming nodes
    after_end = closure(nfa, [b for a, b, k in nfa.eps if k in ('E', 'Z')], ('', 'E', 'Z', 'B'))
    if any(q in symout for q in after_end):
        raise MachineryError('pattern consumes input after $: not supported')
    cs_of = {i: cs for i, cs in (atoms or {}).values()}
    kernel = [start] + sorted({b for _, _, b in nfa.sym})
    index = {q: i + 1 for i, q in enumerate(kernel)}
    ef = EpsFree()
    ef.n = len(kernel)
    ef.delta = {}
    ef.fin_noend = set()
    ef.fin_end = set()       # accepting if the string ends here (`$` or `\Z` satisfied)
    ef.fin_endnl = set()     # accepting if exactly one newline follows and ends the string (`$` only)
    E0 = frozenset()
    for q in kernel:
        cl = closure_g(nfa, [(q, E0)], ('', 'B') if q == start else ('',))
        fins = [F for x, F in cl if x == final]
        if fins:
            ef.fin_noend.add(index[q])
            if all(F for F in fins) and approx is not None:
                # a match may end here only if the next symbol is outside F: not expressible as a state flag
                approx.append('possessive repeat at the end of an unanchored pattern')
        if any(x == final for x, F in closure_g(nfa, cl, ('', 'E', 'Z'))):
            ef.fin_end.add(index[q])
        # `$` before a final newline: the pending guards must admit '\n' as the next symbol
        if any(x == final and not any(cs_of[f].contains(10) for f in F) for x, F in closure_g(nfa, cl, ('', 'E'))):
            ef.fin_endnl.add(index[q])
        d = {}
        for x, F in cl:
            for ai, b in symout.get(x, ()):
                d.setdefault((ai, F), set()).add(index[b])
        ef.delta[index[q]] = d
    # a start state that is also re-entered after consuming would wrongly allow ^ later: Thompson
    # construction never targets `start`, so this cannot happen.
    return ef


def partition(atoms, extra_split=()):
    """Partition the code points by membership signature over all atoms (and extra sets).
    Returns (classes, atom_classes): classes = list of dicts(rep=[...], size=int, members or None),
    atom_classes[atom_index] = set of class ids."""
    sets = [cs for _, cs in sorted(atoms.values(), key=lambda x: x[0])]
    extra = [frozenset(x) for x in extra_split]
    relevant = set()
    for cs in sets:
        relevant |= cs.members
    for x in extra:
        relevant |= x
    sig_of = {}
    for cp in sorted(relevant):
        sig = tuple(cs.contains(cp) for cs in sets) + tuple(cp in x for x in extra)
        sig_of.setdefault(sig, []).append(cp)
    other_sig = tuple(cs.negated for cs in sets) + tuple(False for _ in extra)
    classes = []
    for sig, mem in sorted(sig_of.items(), key=lambda kv: kv[1][0]):
        classes.append({'sig': sig, 'members': mem, 'size': len(mem)})
    # everything else (not mentioned by any atom): one class, represented by a few exotic points
    others = [cp for cp in (0x21, 0x7e, 0xe9, 0x4e2d, 0x1f600, 0x0) if cp not in relevant]
    if other_sig in sig_of:
        # some relevant code points share the signature of "everything else": merge
        for c in classes:
            if c['sig'] == other_sig:
                c['members'] = c['members'] + others
                c['size'] = MAXCP - len(relevant) + len(sig_of[other_sig])
    else:
        classes.append({'sig': other_sig, 'members': others, 'size': MAXCP - len(relevant)})
    partition.other = next(k + 1 for k, c in enumerate(classes) if c['sig'] == other_sig)
    atom_classes = []
    for i, cs in enumerate(sets):
        atom_classes.append({k + 1 for k, c in enumerate(classes) if c['sig'][i]})
    return classes, atom_classes


def representatives(cls, k=3):
    mem = cls['members']
    reps = []
    ascii_ = [c for c in mem if c < 128]
    non = [c for c in mem if c >= 128]
    if ascii_:
        reps.append(ascii_[0])
        if len(ascii_) > 1:
            reps.append(ascii_[-1])
    if non:
        reps.append(non[0])
        if len(non) > 1 and len(reps) < k:
            reps.append(non[len(non) // 2])
    return reps[:k] or mem[:1]


def translate(patterns, extra_split=()):
    """patterns: dict name -> compiled re.  Returns dict with classes, per-pattern eps-free NFAs."""
    if not any(set(x) == {10} for x in extra_split):
        extra_split = tuple(extra_split) + ({10},)          # '\n' is always a class of its own (the `$` semantics)
    atoms = {}
    nfas = {}
    approx = {}
    for name, pat in patterns.items():
        flags = pat.flags & ~re.UNICODE
        if flags & ~(re.IGNORECASE | re.DOTALL):
            raise MachineryError('unsupported flags on %s: %s' % (name, pat.flags))
        why = []
        nfa, s, f = build(pat.pattern, pat.flags, atoms, why)
        nfas[name] = eps_free(nfa, s, f, atoms, why)
        if why:
            approx[name] = sorted(set(why))
    classes, atom_classes = partition(atoms, extra_split)
    for name, ef in nfas.items():
        ef.cdelta = {}
        for q, d in ef.delta.items():
            cd = {}
            for (ai, F), tg in d.items():
                banned = set().union(*[atom_classes[f] for f in F]) if F else ()
                for c in atom_classes[ai]:
                    if c not in banned:
                        cd.setdefault(c, set()).update(tg)
            ef.cdelta[q] = cd
    nl = next((k + 1 for k, c in enumerate(classes) if 10 in c['members']), 0)
    if nl and classes[nl - 1]['size'] != 1:
        # '\n' must be alone in its class for the `$` semantics; force a split
        return translate(patterns, tuple(extra_split) + ({10},))
    return {'classes': classes, 'nfas': nfas, 'nl': nl, 'names': list(patterns.keys()), 'other': partition.other, 'approx': approx}


def tla_module(tr, modname='EventCodesNFA'):
    names = tr['names']
    nc = len(tr['classes'])
    out = ['---- MODULE %s ----' % modname,
           '\\* GENERATED from the live athlib.codes patterns by harness/rx.py - do not edit',
           'PatNames == <<%s>>' % ', '.join('"%s"' % n for n in names),
           'NClasses == %d' % nc,
           'NLClass == %d' % tr['nl'],
           'NStates == <<%s>>' % ', '.join(str(tr['nfas'][n].n) for n in names),
           'FinNoEnd == <<%s>>' % ', '.join('{%s}' % ', '.join(map(str, sorted(tr['nfas'][n].fin_noend))) for n in names),
           'FinEnd == <<%s>>' % ', '.join('{%s}' % ', '.join(map(str, sorted(tr['nfas'][n].fin_end))) for n in names),
           'FinEndNL == <<%s>>' % ', '.join('{%s}' % ', '.join(map(str, sorted(tr['nfas'][n].fin_endnl))) for n in names),
           'OtherClass == %d' % tr['other'],
           'ClassRanges == <<%s>>' % ', '.join('<<%d, %d, %d>>' % r for r in class_ranges(tr)),
           '\\* Delta[p][q][c] = set of successor states of state q of pattern p on class c',
           'Delta == <<']
    pats = []
    for n in names:
        ef = tr['nfas'][n]
        rows = []
        for q in range(1, ef.n + 1):
            cd = ef.cdelta.get(q, {})
            rows.append('<<' + ','.join('{%s}' % ','.join(map(str, sorted(cd.get(c, ())))) for c in range(1, nc + 1)) + '>>')
        pats.append('  <<' + ',\n    '.join(rows) + '>>')
    out.append(',\n'.join(pats))
    out.append('>>')
    out.append('====')
    return '\n'.join(out) + '\n'


def class_ranges(tr):
    out = []
    for k, c in enumerate(tr['classes']):
        if k + 1 == tr['other']:
            continue
        mem = sorted(c['members'])
        lo = prev = mem[0]
        for x in mem[1:]:
            if x != prev + 1:
                out.append((lo, prev, k + 1))
                lo = x
            prev = x
        out.append((lo, prev, k + 1))
    return sorted(out)


def simulate(tr, name, classes_seq):
    """Reference simulation in Python of the same acceptance definition (used for self-checks only)."""
    ef = tr['nfas'][name]
    live = {1}
    sticky = bool(live & ef.fin_noend)
    prev_end = False
    last_nl = False
    for c in classes_seq:
        prev_end = bool(live & ef.fin_endnl)
        live = set().union(*[ef.cdelta.get(q, {}).get(c, set()) for q in live]) if live else set()
        sticky = sticky or bool(live & ef.fin_noend)
        last_nl = (c == tr['nl'])
    return sticky or bool(live & ef.fin_end) or (last_nl and prev_end)


def class_of(tr, cp):
    for k, c in enumerate(tr['classes']):
        if cp in c['members']:
            return k + 1
    return tr['other']
