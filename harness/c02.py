from . import hjcheck


def run(tier):
    return hjcheck.run('C02', tier)


def replay(rec):
    return hjcheck.replay(rec)
