"""Shared machinery: repo binding, scratch dirs, the TLC runner, evidence and verdicts.

Every check follows the pipeline of DESIGN.md section 2.1:
  (a) model run in TLC   (b) replay into the real code   (c) trace validation in TLC
  (d) verdict + evidence.
Verdicts are only ever derived from TLC output (printed "@@{json}" verdict lines, invariant
violations, statistics); this module just runs TLC and parses what it said.
"""
import os, sys, json, time, re, subprocess, tempfile, shutil, hashlib, itertools, copy

VERIF = os.path.dirname(os.path.dirname(os.path.abspath(__file__)))
REPO = os.environ.get('ATHLIB_REPO', '/repo')
SPECS = os.path.join(VERIF, 'specs')
REFDATA = os.path.join(VERIF, 'refdata')
# development aids (never set by a registered command): experiments against scratch copies write elsewhere
EVIDENCE = os.environ.get('VERIF_EVIDENCE_DIR') or os.path.join(VERIF, 'evidence')
REPLAYDIR = os.environ.get('VERIF_REPLAY_DIR') or (os.path.join(os.environ['VERIF_EVIDENCE_DIR'], 'replay') if os.environ.get('VERIF_EVIDENCE_DIR') else os.path.join(VERIF, 'replay'))
KNOWN = os.path.join(VERIF, 'known_findings.json')
TLAJAR = '/opt/veriftools/tla/tla2tools.jar'
TLADEPS = '/opt/veriftools/tla/CommunityModules-deps.jar'
NCPU = os.cpu_count() or 4
GUARD = 'ATHLIB_VERIF'


def seed():
    try:
        return int(os.environ.get('VERIF_SEED', '0') or 0)
    except ValueError:
        return 0


class MachineryError(Exception):
    """Something in the checking machinery (not the code under test) failed: exit 2."""


def use_repo():
    """Make `import athlib` resolve to REPO's working tree and return the package."""
    os.environ.setdefault(GUARD, '1')
    if sys.path[0] != REPO:
        sys.path.insert(0, REPO)
    import athlib
    f = os.path.realpath(athlib.__file__)
    if not f.startswith(os.path.realpath(REPO) + os.sep):
        raise MachineryError('athlib imported from %s, not from %s' % (f, REPO))
    return athlib


class Scratch(object):
    """Run-scoped scratch directory, removed on exit (nothing registered depends on /tmp)."""

    def __init__(self, tag):
        self.tag = tag
        self.path = None

    def __enter__(self):
        self.path = tempfile.mkdtemp(prefix='athverif-%s-' % self.tag)
        return self

    def __exit__(self, *a):
        if os.environ.get('VERIF_KEEP_SCRATCH'):
            sys.stderr.write('scratch kept: %s\n' % self.path)
        else:
            shutil.rmtree(self.path, ignore_errors=True)

    def sub(self, name):
        p = os.path.join(self.path, name)
        os.makedirs(p, exist_ok=True)
        return p

    def file(self, name):
        return os.path.join(self.path, name)


# --------------------------------------------------------------------------- TLC runner

_UNESC = re.compile(r'\\(.)')


def _unescape_tla_string(s):
    def rep(m):
        c = m.group(1)
        return {'n': '\n', 't': '\t', 'r': '\r', 'f': '\f'}.get(c, c)
    return _UNESC.sub(rep, s)


class TLCResult(object):
    def __init__(self):
        self.rc = None
        self.out = ''
        self.printed = []       # decoded "@@{json}" lines
        self.generated = 0
        self.distinct = 0
        self.depth = 0
        self.violated = None    # name of a violated invariant / property
        self.errors = []        # 'Error: ...' lines
        self.coverage = {}      # action name -> (distinct, total)
        self.wall = 0.0
        self.cmd = ''

    @property
    def ok(self):
        return self.rc == 0 and not self.errors

    def summary(self):
        return dict(rc=self.rc, generated=self.generated, distinct=self.distinct, depth=self.depth,
                    violated=self.violated, wall_s=round(self.wall, 2))


_RE_STATES = re.compile(r'(\d+) states generated, (\d+) distinct states found')
_RE_SIMSTATES = re.compile(r'The number of states generated: (\d+)')
_RE_DEPTH = re.compile(r'The depth of the complete state graph search is (\d+)')
_RE_VIOL = re.compile(r'Error: (?:Invariant|Action property|Temporal properties|Property) ?(\S*) (?:is|were) violated')
_RE_COV = re.compile(r'^<(\w+) line \d+, col \d+ to line \d+, col \d+ of module (\w+)>: (\d+):(\d+)')


def prepare_spec_dir(scratch, extra_files=()):
    """Copy all hand-written specs (and pinned generated data modules) into a scratch dir."""
    d = scratch.sub('spec')
    for src in (SPECS, os.path.join(SPECS, 'gen')):
        if not os.path.isdir(src):
            continue
        for fn in os.listdir(src):
            if fn.endswith('.tla') or fn.endswith('.cfg'):
                dst = os.path.join(d, fn)
                if not os.path.exists(dst):
                    shutil.copy(os.path.join(src, fn), dst)
    for f in extra_files:
        shutil.copy(f, os.path.join(d, os.path.basename(f)))
    return d


def run_tlc(specdir, module, cfg=None, workers=None, env=None, simulate=None, depth=None,
            seed_=None, coverage=False, deadlock=True, timeout=1800, heap='6g', extra=(),
            dump=None, dfs=False, metatag=None, check=True, continue_=False):
    """Run TLC on specdir/module.tla with specdir/cfg; return TLCResult.

    check=True raises MachineryError on TLC-level failures (parse errors, evaluation errors);
    invariant violations are *not* machinery errors, they are returned in .violated.
    """
    workers = workers or NCPU
    cfg = cfg or (module + '.cfg')
    meta = os.path.join(specdir, 'meta-%s-%s' % (metatag or module, os.getpid()))
    cmd = ['java', '-XX:+UseParallelGC', '-Xmx' + heap, '-Xss64m']
    if dfs:
        cmd.append('-Dtlc2.tool.queue.IStateQueue=StateDeque')
    cmd += ['-cp', TLAJAR + ':' + TLADEPS, 'tlc2.TLC', '-metadir', meta, '-noGenerateSpecTE',
            '-workers', str(workers), '-config', cfg]
    if not deadlock:
        cmd.append('-deadlock')
    if coverage:
        cmd += ['-coverage', '1']
    if continue_:
        cmd.append('-continue')
    if simulate is not None:
        cmd += ['-simulate', simulate]
        if depth:
            cmd += ['-depth', str(depth)]
        if seed_ is not None:
            cmd += ['-seed', str(seed_)]
    if dump:
        cmd += ['-dump', 'dot,actionlabels', dump]
    cmd += list(extra)
    cmd.append(module + '.tla')
    e = dict(os.environ)
    e.pop('JAVA_TOOL_OPTIONS', None)
    if env:
        e.update({k: str(v) for k, v in env.items()})
    r = TLCResult()
    r.cmd = ' '.join(cmd)
    t0 = time.time()
    try:
        p = subprocess.run(cmd, cwd=specdir, env=e, stdout=subprocess.PIPE, stderr=subprocess.STDOUT,
                           timeout=timeout)
        r.rc = p.returncode
        r.out = p.stdout.decode('utf8', 'replace')
    except subprocess.TimeoutExpired as ex:
        r.rc = -9
        r.out = (ex.stdout or b'').decode('utf8', 'replace')
        r.errors.append('timeout after %ss' % timeout)
    r.wall = time.time() - t0
    shutil.rmtree(meta, ignore_errors=True)
    for line in r.out.splitlines():
        if line.startswith('"@@') and line.endswith('"'):
            try:
                r.printed.append(json.loads(_unescape_tla_string(line[3:-1])))
            except ValueError:
                r.errors.append('unparsable verdict line: %s' % line[:200])
            continue
        m = _RE_STATES.search(line)
        if m:
            r.generated, r.distinct = int(m.group(1)), int(m.group(2))
            continue
        m = _RE_SIMSTATES.search(line)
        if m:
            r.generated = r.distinct = int(m.group(1))
            continue
        m = _RE_DEPTH.search(line)
        if m:
            r.depth = int(m.group(1))
            continue
        m = _RE_VIOL.search(line)
        if m:
            r.violated = m.group(1) or 'property'
            continue
        m = _RE_COV.match(line)
        if m:
            r.coverage[m.group(1)] = (int(m.group(3)), int(m.group(4)))
            continue
        if line.startswith('Error:') or 'Exception' in line and 'at tlc2' not in line:
            if 'is violated' in line or 'were violated' in line:
                continue
            r.errors.append(line.strip())
    if r.violated:
        # the follow-up "Error: The behavior up to this point is" lines are part of the violation
        r.errors = [x for x in r.errors if 'behavior up to this point' not in x]
    if check and (r.errors or r.rc not in (0, 12, 13)):
        tail = '\n'.join(r.out.splitlines()[-40:])
        raise MachineryError('TLC failed on %s/%s (rc=%s): %s\n%s' % (module, cfg, r.rc, r.errors[:3], tail))
    return r


def run_tlc_shards(specdir, module, cfg, shard_envs, workers_each=1, timeout=1800, heap='3g', **kw):
    """Run one TLC JVM per shard in parallel (each with its own env, e.g. TRACE_FILE)."""
    from concurrent.futures import ThreadPoolExecutor
    par = max(1, NCPU // max(1, workers_each))

    def one(i_env):
        i, env = i_env
        return run_tlc(specdir, module, cfg, workers=workers_each, env=env, timeout=timeout, heap=heap,
                       metatag='%s-s%d' % (module, i), **kw)
    with ThreadPoolExecutor(max_workers=par) as ex:
        return list(ex.map(one, enumerate(shard_envs)))


def run_apalache(specdir, module, init, inv, length, next_='Next', timeout=900, tag=''):
    """apalache-mc check (symbolic, bounded by `length` steps from `init`).  Returns 'NoError' | 'Error'
    (the invariant can be violated); anything else is a machinery failure."""
    out = os.path.join(specdir, 'apa-%s-%s-%s' % (module, tag or inv, os.getpid()))
    cmd = ['apalache-mc', 'check', '--init=' + init, '--next=' + next_, '--inv=' + inv, '--length=%d' % length,
           '--out-dir=' + out, module + '.tla']
    e = dict(os.environ)
    e.pop('JAVA_TOOL_OPTIONS', None)
    try:
        p = subprocess.run(cmd, cwd=specdir, env=e, stdout=subprocess.PIPE, stderr=subprocess.STDOUT, timeout=timeout)
        text = p.stdout.decode('utf8', 'replace')
    except subprocess.TimeoutExpired:
        raise MachineryError('apalache timed out after %ss on %s %s' % (timeout, module, inv))
    finally:
        shutil.rmtree(out, ignore_errors=True)
    m = re.search(r'The outcome is: (\w+)', text)
    if not m or m.group(1) not in ('NoError', 'Error'):
        raise MachineryError('apalache failed on %s (%s/%s): %s' % (module, init, inv, '\n'.join(text.splitlines()[-15:])))
    return m.group(1)


def run_tlapm(specdir, module, timeout=900):
    """Check the proofs of specdir/module.tla with the TLA+ proof system.  Returns the number of proved obligations;
    any obligation that is not proved (or a tool failure) is a machinery failure - the proofs are part of /verif."""
    if not shutil.which('tlapm'):
        raise MachineryError('tlapm is not available')
    e = dict(os.environ)
    e.pop('JAVA_TOOL_OPTIONS', None)
    try:
        p = subprocess.run(['tlapm', '--cleanfp', '-I', specdir, module + '.tla'], cwd=specdir, env=e, stdout=subprocess.PIPE,
                           stderr=subprocess.STDOUT, timeout=timeout)
        text = p.stdout.decode('utf8', 'replace')
    except subprocess.TimeoutExpired:
        raise MachineryError('tlapm timed out after %ss on %s' % (timeout, module))
    m = re.search(r'All (\d+) obligations? proved', text)
    if not m:
        raise MachineryError('tlapm did not prove every obligation of %s:\n%s' % (module, '\n'.join(text.splitlines()[-25:])))
    return int(m.group(1))


def sany(specdir, module):
    cmd = ['java', '-cp', TLAJAR + ':' + TLADEPS, 'tla2sany.SANY', module + '.tla']
    p = subprocess.run(cmd, cwd=specdir, stdout=subprocess.PIPE, stderr=subprocess.STDOUT)
    return p.returncode, p.stdout.decode('utf8', 'replace')


# --------------------------------------------------------------------------- the repository suite as an input corpus

_CORPUS = None


def suite_corpus():
    """{label: [{'a': args, 'k': kwargs, 't': test id}, ...]}: every call the repository's own test-suite makes to the
    functions the specifications describe, harvested by running the suite of the working tree under
    harness/pytest_trace.py.  The checks feed these inputs through their own pipelines (same monitors) - the inputs
    nearest to what the tests exercise, judged by the specification instead of the tests' assertions.  A bonus input
    class only: an empty corpus (suite cannot run) is not an error."""
    global _CORPUS
    if _CORPUS is not None:
        return _CORPUS
    _CORPUS = {}
    d = tempfile.mkdtemp(prefix='athverif-corpus-')
    try:
        out = os.path.join(d, 'corpus.ndjson')
        env = dict(os.environ, VERIF_PYTEST_TRACE=out, VERIF_PYTEST_CORPUS='1', PYTHONPATH=VERIF + os.pathsep + REPO,
                   PYTHONDONTWRITEBYTECODE='1')
        env[GUARD] = '1'
        subprocess.run([sys.executable, '-m', 'pytest', '-q', '-p', 'no:cacheprovider', '-p', 'harness.pytest_trace', 'tests/'],
                       cwd=REPO, env=env, stdout=subprocess.PIPE, stderr=subprocess.STDOUT, timeout=900)
        if os.path.exists(out):
            with open(out) as f:
                for line in f:
                    rec = json.loads(line)
                    if rec.get('kind') == 'corpus':
                        _CORPUS = rec['calls']
    except Exception:
        _CORPUS = {}
    finally:
        shutil.rmtree(d, ignore_errors=True)
    return _CORPUS


def corpus_args(label_suffixes, pos=0, typ=str):
    """Distinct values of positional argument `pos` (of type `typ`) over the corpus entries whose label ends with one of
    `label_suffixes`."""
    out, seen = [], set()
    for label, calls in sorted(suite_corpus().items()):
        if not any(label.endswith(sfx) for sfx in label_suffixes):
            continue
        for c in calls:
            a = c.get('a', [])
            if len(a) > pos and isinstance(a[pos], typ) and not isinstance(a[pos], bool):
                if a[pos] not in seen:
                    seen.add(a[pos])
                    out.append(a[pos])
    return out


# --------------------------------------------------------------------------- trace files

def write_ndjson(path, records):
    n = 0
    with open(path, 'w') as f:
        for r in records:
            f.write(json.dumps(r, separators=(',', ':'), sort_keys=True))
            f.write('\n')
            n += 1
    return n


def shard(seq, n):
    """Split a list into n nearly equal contiguous shards (no empty shards)."""
    seq = list(seq)
    n = max(1, min(n, len(seq)))
    k, m = divmod(len(seq), n)
    out, i = [], 0
    for s in range(n):
        j = i + k + (1 if s < m else 0)
        out.append(seq[i:j])
        i = j
    return out


def tla_str(s):
    return '"' + s.replace('\\', '\\\\').replace('"', '\\"') + '"'


def tla_val(v):
    """Python value -> TLA+ expression text (ints, bools, strs, lists->tuples, dicts->records, sets)."""
    if isinstance(v, bool):
        return 'TRUE' if v else 'FALSE'
    if isinstance(v, int):
        return str(v)
    if isinstance(v, str):
        return tla_str(v)
    if isinstance(v, (list, tuple)):
        return '<<' + ', '.join(tla_val(x) for x in v) + '>>'
    if isinstance(v, (set, frozenset)):
        return '{' + ', '.join(tla_val(x) for x in sorted(v, key=repr)) + '}'
    if isinstance(v, dict):
        if not v:
            return '<<>>'
        return '[' + ', '.join('%s |-> %s' % (k, tla_val(x)) for k, x in v.items()) + ']'
    raise TypeError('no TLA+ form for %r' % (v,))


# --------------------------------------------------------------------------- verdicts

class Violation(object):
    def __init__(self, sig, what, replay):
        self.sig = sig          # stable, narrow signature used to match known findings
        self.what = what        # human text
        self.replay = replay    # JSON-able dict sufficient to reproduce on the real code


def load_known():
    if not os.path.exists(KNOWN):
        return {'findings': [], 'fixed': []}
    with open(KNOWN) as f:
        return json.load(f)


def match_known(pid, v, known):
    for k in known.get('findings', []):
        if k.get('property') != pid:
            continue
        if 'sig' in k and k['sig'] == v.sig:
            return k
        if 'sig_regex' in k and re.fullmatch(k['sig_regex'], v.sig):
            return k
    return None


class Report(object):
    """Collects what a check run covered and found, writes evidence, prints verdict lines."""

    def __init__(self, pid, tier, level):
        self.pid, self.tier, self.level = pid, tier, level
        self.t0 = time.time()
        self.violations = []
        self.drift = []
        self.cov = {}
        self.assumptions = []
        self.samples = []
        self.notes = []

    def add_violation(self, sig, what, replay):
        self.violations.append(Violation(sig, what, replay))

    def add_drift(self, what):
        self.drift.append(what)

    def count(self, key, n=1):
        self.cov[key] = self.cov.get(key, 0) + int(n)

    def setcov(self, key, v):
        self.cov[key] = v

    def sample(self, s, limit=6):
        if len(self.samples) < limit:
            self.samples.append(s)

    def absorb_tlc(self, r, traces=0):
        self.count('states', r.distinct)
        self.count('transitions', r.generated)
        self.count('traces_validated_against_impl', traces)
        self.cov.setdefault('tlc_runs', []).append(r.summary())

    def finish(self):
        known = load_known()
        os.makedirs(EVIDENCE, exist_ok=True)
        new, seen_known, seen_sig = [], {}, set()
        for v in self.violations:
            k = match_known(self.pid, v, known)
            if k is not None:
                seen_known.setdefault(k['id'], [k, 0])[1] += 1
                continue
            if v.sig in seen_sig:
                continue
            seen_sig.add(v.sig)
            new.append(v)
        for kid, (k, n) in sorted(seen_known.items()):
            print('KNOWN-FINDING: property=%s %s [%s, %d occurrence(s) this run]' % (self.pid, k['what'], kid, n))
        paths = []
        if new:
            d = os.path.join(REPLAYDIR, self.pid)
            shutil.rmtree(d, ignore_errors=True)
            os.makedirs(d, exist_ok=True)
            for i, v in enumerate(new[:40]):
                p = os.path.join(d, '%s_%03d.json' % (self.pid, i))
                with open(p, 'w') as f:
                    json.dump({'property': self.pid, 'sig': v.sig, 'what': v.what, 'replay': v.replay}, f, indent=1,
                              sort_keys=True, default=str)
                paths.append(p)
                print('VIOLATION property=%s replay=%s' % (self.pid, p))
                print('  what: %s' % v.what[:400])
            if len(new) > 40:
                print('  ... and %d more distinct violation signatures' % (len(new) - 40))
        for dmsg in self.drift[:10]:
            sys.stderr.write('DRIFT property=%s %s\n' % (self.pid, dmsg[:300]))
        cov = dict(self.cov)
        cov['samples'] = self.samples or ['(no sample recorded)']
        cov['drift'] = len(self.drift)
        cov['known_findings_seen'] = {k: n for k, (_, n) in seen_known.items()}
        cov['new_violation_signatures'] = [v.sig for v in new[:40]]
        if self.notes:
            cov['notes'] = self.notes
        if SELFTESTS:
            cov['binding_selftest'] = list(SELFTESTS)
        if self.level == 'model_checking':
            for key in ('states', 'transitions', 'traces_validated_against_impl'):
                cov.setdefault(key, 0)
        ev = {
            'property_id': self.pid, 'tier': self.tier, 'seed': seed(), 'level': self.level,
            'coverage': cov, 'assumptions': self.assumptions,
            'wall_s': round(time.time() - self.t0, 2), 'violations': len(new),
        }
        with open(os.path.join(EVIDENCE, self.pid + '.json'), 'w') as f:
            json.dump(ev, f, indent=1, sort_keys=True, default=str)
        print('%s %s: %s; %d new violation signature(s), %d known-finding class(es), drift=%d, wall=%.1fs' % (
            self.pid, self.tier, 'HELD' if not new else 'VIOLATED', len(new), len(seen_known), len(self.drift),
            time.time() - self.t0))
        return 1 if new else 0


# --------------------------------------------------------------------------- record validation (F-specs)

def validate_records(specdir, scratch, module, records, nshards=None, cfg=None, workers_each=1, heap='3g',
                     timeout=3000, tag='rec', env=None):
    """Each record is judged independently by TLC (module must follow the Trace_* record idiom:
    Init == tid \\in DOMAIN Trace, invariant prints "@@{tid, kind, clauses,...}" for failing records).
    Returns (reports, tlc_results); reports carry 'index' = position in `records`."""
    records = list(records)
    if not records:
        return [], []
    if os.environ.get('VERIF_DUMP_SAMPLES'):
        seen = {}
        for r in records:
            seen.setdefault(str(r.get('k', '')), r)
        os.makedirs(os.environ['VERIF_DUMP_SAMPLES'], exist_ok=True)
        with open(os.path.join(os.environ['VERIF_DUMP_SAMPLES'], module + '.json'), 'w') as f:
            json.dump(seen, f, default=str)
    nshards = nshards or NCPU
    idxs = shard(list(range(len(records))), nshards)
    envs = []
    for k, idx in enumerate(idxs):
        p = scratch.file('%s_%s_%d.ndjson' % (tag, module, k))
        write_ndjson(p, (records[q] for q in idx))
        e = {'TRACE_FILE': p}
        if env:
            e.update(env)
        envs.append(e)
    outs = run_tlc_shards(specdir, module, cfg or (module + '.cfg'), envs, workers_each=workers_each, heap=heap,
                          timeout=timeout)
    reports = []
    for idx, r in zip(idxs, outs):
        if r.distinct != len(idx):
            raise MachineryError('%s: shard not fully consumed (%d states for %d records)' % (module, r.distinct, len(idx)))
        for pr in r.printed:
            pr['index'] = idx[pr['tid'] - 1]
            reports.append(pr)
    binding_selftest(specdir, scratch, module, records, reports, cfg, env, heap, tag)
    return reports, outs


RECORD_CFG = 'SPECIFICATION Spec\nINVARIANT Checked\nCHECK_DEADLOCK FALSE\n'


# --------------------------------------------------------------------------- binding self-test (DESIGN section 7)
# After the real records have been judged, a handful of records that TLC ACCEPTED are corrupted in one recorded field (a
# point more, a digit changed, an outcome flipped, a label swapped) and judged again: the trace specification must reject
# them.  A specification that accepts a corrupted observation is not bound to the observations (a vacuous monitor, a
# field nobody reads) - that is a failure of the machinery, found in the very run it would have spoiled.

def _c_athlon(r):
    if r.get('k') == 'seg' and not r.get('age') and r.get('segs'):
        for sg in r['segs'][len(r['segs']) // 2:]:
            if isinstance(sg[2], int) and 0 < sg[2] < 1500:
                sg[2] += 1
                r['re'] = []
                return r
    return None


def _c_need(r):
    if r.get('k') == 'need' and r.get('known') and not r.get('none') and isinstance(r.get('t'), int) and r['t'] > 0 \
            and isinstance(r.get('sAt'), int) and r['sAt'] >= r['t']:
        r['sAt'] = r['t'] - 1                    # the returned mark scores one point less than asked for
        return r
    return None


def _c_junior(r):
    if r.get('k') == 'seg' and not r.get('opt') and r.get('segs'):
        for sg in r['segs'][len(r['segs']) // 2:]:
            if isinstance(sg[2], int) and sg[2] > 0:
                sg[2] += 3
                return r
    return None


def _c_timetext(r):
    o = r.get('out')
    if r.get('k') == 'ru' and isinstance(o, dict) and o.get('ok'):
        d = o['fp'] if o.get('fp') else o.get('ip')
        if d:
            d[-1] = (d[-1] + 1) % 10
            return r
    if r.get('k') == 'ph' and isinstance(o, dict) and o.get('t') == 'int':
        o['w'] += 1
        return r
    if r.get('k') == 'ft' and isinstance(o, dict) and o.get('ok') and o.get('fields'):
        o['fields'][-1] = (o['fields'][-1] + 7) % 60
        return r
    return None


def _c_agegroups(r):
    runs = r.get('runs')
    if runs:
        run = runs[len(runs) // 2]
        if isinstance(run[2], str) and not run[2].startswith('exc'):
            run[2] = 'U11' if run[2] != 'U11' else 'SEN'
            return r
    return None


def _c_agegrade(r):
    if r.get('k') == 'ag' and isinstance(r.get('f'), list) and r['f'] != [0, 0, 0]:
        r['f'] = [0, 0, 0]                      # the factor reads 0.0: not a positive number
        return r
    if r.get('k') == 'ip' and r.get('queries'):
        q = r['queries'][len(r['queries']) // 2]
        q[1] = [0, 0, 0]
        return r
    return None


def _c_sortkey(r):
    if r.get('k') == 'code' and r.get('chk') and isinstance(r.get('key'), dict) and r['key'].get('ok'):
        r['key']['ok'] = False                  # the sort key raised
        return r
    return None


def _c_codetext(r):
    if r.get('k') == 'code' and r.get('chk') and r.get('out') == 'ok' and r.get('n'):
        r['n'] = list(r['n']) + [32]            # a blank in the normal form
        return r
    return None


def _c_perfcheck(r):
    if r.get('out') == 'ok' and r.get('chk') and not r.get('loose'):
        r['out'] = 'exc'                         # something other than the supplied class was raised
        return r
    return None


def _c_implements(r):
    if r.get('k') in ('spec', 'pass') and r.get('out') == 'ok' and r.get('code'):
        r['code'] = list(r['code']) + [88]
        return r
    return None


def _c_port(r):
    py = r.get('py')
    if isinstance(py, dict) and py.get('t') == 'str' and not r.get('opt'):
        r['js'] = {'t': 'str', 'v': list(py['v']) + [48]}
        return r
    if isinstance(py, dict) and py.get('t') == 'bool' and not r.get('opt'):
        r['js'] = {'t': 'bool', 'v': not py['v']}
        return r
    return None


def _c_scoring(r):
    sg = r.get('segs')
    if sg:
        for i in range(len(sg) - 1):
            a, b = sg[i][2], sg[i + 1][2]
            if isinstance(a, int) and isinstance(b, int) and a > 0 and b > 0 and a != b:
                sg[i][2], sg[i + 1][2] = b, a
                return r
    return None


def _c_eventcodes(r):
    if 'PAT_TIMED_EVENT' in r.get('acc', []) and 'PAT_FIELD' not in r['acc']:
        r['acc'] = list(r['acc']) + ['PAT_FIELD']
        return r
    return None


CORRUPTORS = {'Trace_Athlon': lambda r: _c_athlon(r) or _c_need(r), 'Trace_Junior': _c_junior, 'Trace_TimeText': _c_timetext, 'Trace_AgeGroups': _c_agegroups,
              'Trace_AgeGrade': _c_agegrade, 'Trace_SortKey': _c_sortkey, 'Trace_CodeText': _c_codetext, 'Trace_PerfCheck': _c_perfcheck,
              'Trace_Implements': _c_implements, 'Trace_Port': _c_port, 'Trace_Scoring': _c_scoring, 'Trace_EventCodes': _c_eventcodes}
SELFTESTS = []


def binding_selftest(specdir, scratch, module, records, reports, cfg, env, heap, tag):
    fn = CORRUPTORS.get(module)
    if fn is None or os.environ.get('VERIF_NO_SELFTEST'):
        return
    flagged = {pr['index'] for pr in reports}
    cand = [i for i in range(len(records)) if i not in flagged]
    step = max(1, len(cand) // 400)
    bad = []
    for i in cand[::step]:
        c = fn(copy.deepcopy(records[i]))
        if c is not None:
            bad.append(c)
        if len(bad) >= 8:
            break
    if not bad:
        SELFTESTS.append({'trace_spec': module, 'corrupted': 0, 'rejected': 0, 'note': 'no accepted record of a corruptible kind'})
        return
    p = scratch.file('%s_%s_selftest.ndjson' % (tag, module))
    write_ndjson(p, bad)
    e = {'TRACE_FILE': p}
    if env:
        e.update(env)
    outs = run_tlc_shards(specdir, module, cfg or (module + '.cfg'), [e], workers_each=1, heap=heap, timeout=1200)
    rejected = len({pr['tid'] for pr in outs[0].printed if pr.get('kind') == 'viol'})
    SELFTESTS.append({'trace_spec': module, 'corrupted': len(bad), 'rejected': rejected})
    if rejected == 0:
        raise MachineryError('binding self-test: %s accepted all %d corrupted records' % (module, len(bad)))
