"""C18 - the JavaScript port computes the same answers as the Python reference.

Each ported function pair (round-up, duration formatting and parsing, hand-timing detection,
event-code normalisation of scoring-table keys, Tyrving and QuadKids scoring) is run in Python and,
through a small CommonJS shim that loads js/src/*.js as they are, in node, over the same input grids
as C06 and C11; Trace_Port.tla checks SameAnswer per case (numbers compared as IEEE bit patterns,
strings as code points).  Python itself is bound to the exact references by C06 / C11."""
import os, json, random, subprocess, shutil
from multiprocessing import Pool
from . import common, c06, junior, agegrade, lang
from .common import Report, Scratch, MachineryError

PY = None


def py_funcs():
    common.use_repo()
    import athlib
    from athlib import utils
    return {'ru': lambda a: utils.round_up_str_num(a[0], a[1]), 'ft': lambda a: utils.format_seconds_as_time(a[0], a[1]),
            'ph': lambda a: utils.parse_hms(a[0]), 'ht': lambda a: utils.is_hand_timing(a[0]),
            'ne': lambda a: utils.normalize_event_code(a[0]), 'ty': lambda a: athlib.tyrving_score(a[0], a[1], a[2], a[3]),
            'qk': lambda a: athlib.qkids_score(a[0], a[1], a[2])}


def enc(v):
    if isinstance(v, bool):
        return {'t': 'bool', 'v': v}
    if isinstance(v, (int, float)):
        f = float(v)
        if f != f or f in (float('inf'), float('-inf')):
            return {'t': 'nonfinite', 'v': 0}
        return {'t': 'num', 'v': agegrade.limbs(f)}
    if isinstance(v, str):
        return {'t': 'str', 'v': lang.cps(v)}
    return {'t': 'other', 'v': 0}


def _py_job(cases):
    F = py_funcs()
    out = []
    for c in cases:
        try:
            out.append(enc(F[c['f']](c['a'])))
        except Exception:
            out.append({'t': 'exc', 'v': 0})
    return out


def _js_job(arg):
    cases, d, k = arg
    cin, cout = os.path.join(d, 'js_in_%d.ndjson' % k), os.path.join(d, 'js_out_%d.ndjson' % k)
    common.write_ndjson(cin, cases)
    shim = os.path.join(common.VERIF, 'harness', 'js', 'shim.js')
    p = subprocess.run(['node', shim, common.REPO, cin, cout], stdout=subprocess.PIPE, stderr=subprocess.PIPE, timeout=3000)
    if p.returncode != 0:
        raise MachineryError('node shim failed: %s' % p.stderr.decode()[-800:])
    out = []
    with open(cout) as f:
        for line in f:
            r = json.loads(line)
            if r['t'] == 'num':
                out.append({'t': 'num', 'v': agegrade.limbs(float(r['v']))})
            elif r['t'] == 'str':
                out.append({'t': 'str', 'v': lang.cps(r['v'])})
            elif r['t'] == 'bool':
                out.append({'t': 'bool', 'v': r['v']})
            else:
                out.append({'t': r['t'], 'v': 0})
    if len(out) != len(cases):
        raise MachineryError('node shim returned %d results for %d cases' % (len(out), len(cases)))
    return out


def cases(quick, rng):
    C = []
    for kind, items in c06.domain(True, rng):
        if kind == 'ru':
            for ip, fp, dot, prec in items[::3 if quick else 1]:
                C.append({'f': 'ru', 'a': [ip + ('.' if dot else '') + fp, prec]})
            # precisions beyond the five decimals both sides keep (6..9): outside C06's grid, but both languages answer, so
            # the statement ("every input in the shared domain") covers them (seed C18-j)
            for k, (ip, fp, dot, prec) in enumerate(items[::29 if quick else 5]):
                C.append({'f': 'ru', 'a': [ip + ('.' if dot else '') + fp, 6 + k % 4]})
        elif kind == 'ft':
            for x, prec in items[::2 if quick else 1]:
                C.append({'f': 'ft', 'a': [x, prec]})
            # digits beyond the fifth decimal (which both implementations treat as noise): the ports must still agree
            for k, (x, prec) in enumerate(items[::14 if quick else 3]):
                for r in (4e-6, 5e-6, 6e-6, 9.5e-6, 1.5e-7)[k % 5:][:2]:
                    C.append({'f': 'ft', 'a': [float(x) + r, prec]})
        elif kind == 'ph':
            for fields, sep in items:
                C.append({'f': 'ph', 'a': [sep.join(fields)]})
    for t in ['12', '12.3', '12.34', '1:02.3', '1:02.34', '', '.', '12.', '.5', '1.2.3', '1:02', '9.999', '59.9', '2:03:04.5', 'abc', '12,3']:
        C.append({'f': 'ht', 'a': [t]})
    for i in range(0, 20000, 7 if quick else 1):
        C.append({'f': 'ht', 'a': ['%d.%02d' % (i // 100, i % 100)]})
        if i % 10 == 0:
            C.append({'f': 'ht', 'a': ['%d.%d' % (i // 100, (i % 100) // 10)]})
    J = junior.ref()
    keys = sorted({k.split('|')[1] for k in J['tyrving']} | {k.split('|')[1] for k in J['qkids']})
    for k in keys:
        # every first-order spelling variant of every table key; for hurdle specifications (several normalised parts in
        # one code) also variants of variants, so that two parts are padded at once (seed C18-g: the port applied its
        # replacements in string-sorted order of their offsets - 13 before 9 - and spliced at stale positions)
        vs = lang.variants(k, rng)
        second = set()
        if 'cm' in k:
            for v in vs:
                if v != k and (not quick or '.' in v):
                    second.update(lang.variants(v, rng))
        for v in list(vs) + sorted(second - set(vs))[::3 if quick else 1]:
            C.append({'f': 'ne', 'a': [v]})
    cap = 250 if quick else 4000
    spelled = {}
    for sys_, key, age, form, marks in junior.jobs_all(True, rng):
        if sys_ not in ('tyrving', 'qkids'):
            continue
        marks = marks[::max(1, len(marks) // cap)]
        for c in marks:
            v = junior.fmt(c, form)
            if v is None:
                continue
            opt = form in junior.OPTIONAL_FORMS      # not a documented form: in the shared domain only if both sides answer
            if sys_ == 'tyrving':
                g, ev = key.split('|')
                C.append({'f': 'ty', 'a': [g, age, ev, v], 'opt': opt})
                if 'cm' in ev and len(C) % 5 == 0:
                    # the table is reached through the normalised key: a padded spelling of the key must score alike
                    alts = spelled.setdefault(ev, [x for x in lang.variants(ev, rng) if x != ev and '.' in x and ' ' not in x and '\t' not in x and '\n' not in x])
                    if alts:
                        C.append({'f': 'ty', 'a': [g, age, alts[len(C) % len(alts)], v], 'opt': opt})
            else:
                ct, ev = key.split('|')
                C.append({'f': 'qk', 'a': [ct, ev, v], 'opt': opt})
    # QuadKids competition types by NAME (the alias table both languages carry), in several spellings - the grid above
    # reaches the tables through their codes only (seed C18-h: the port stripped '-' and '_' from the name and lost the one
    # alias that contains a hyphen)
    NAMES = {'Wessex League': 'QKWL', 'Wessex League (U13)': 'QKWLU13', 'Quad Kids Secondary': 'QKSEC', 'Quad Kids Primary': 'QKPRI',
             'Quad Kids Start': 'QKSTA', 'Quad Kids Club': 'QKCLUB', 'Quad Kids Club U13': 'QKCLU13', 'Quad Kids Club U9': 'QKCLU9',
             'Quad Kids Pre-Start': 'QKPRE'}
    try:
        live = common_live_alias_names()
    except Exception:
        live = {}
    for name, code in sorted(set(NAMES.items()) | set(live.items())):
        evs = sorted({k.split('|')[1] for k in J['qkids'] if k.split('|')[0] == code})
        for sp in (name, name.upper(), name.lower(), name.replace(' ', ''), name.replace(' ', '').upper(), ' ' + name + ' ', name.replace(' ', '  ')):
            for ev in evs[:3]:
                row = J['qkids']['%s|%s' % (code, ev)]
                for c in (row['base'], row['base'] + 17 * row['step'] * (-1 if row.get('run') else 1), row['base'] + 40 * row['step'] * (-1 if row.get('run') else 1)):
                    v = junior.fmt(int(c), 'text')
                    if v is not None:
                        C.append({'f': 'qk', 'a': [sp, ev, v]})
    return C


def common_live_alias_names():
    """alias names the live Python table carries (inputs only - the oracle is the agreement of the two languages)"""
    common.use_repo()
    import sys as _s
    import athlib
    m = _s.modules.get('athlib.qkids_score')
    return {k: v for k, v in getattr(m, '_compTypeMap', {}).items() if isinstance(k, str) and isinstance(v, str)}


def input_class(c):
    a = c['a']
    if c['f'] == 'ru':
        s = a[0]
        return 'emptyint' if s.startswith('.') else 'nodot' if '.' not in s else 'plain'
    if c['f'] == 'ft':
        x = float(a[0])
        fr = abs(x - round(x, 3))
        return 'residue' if fr > 0 else 'grid'
    if c['f'] == 'ph':
        return 'fields%d' % (a[0].count(':') + a[0].count(';') + 1)
    if c['f'] == 'ty':
        v = a[3]
        form = 'num' if not isinstance(v, str) else 'hms' if ':' in v else 'hand' if len(v.split('.')[-1]) == 1 and '.' in v else 'text'
        return '%s:%s' % (form, ''.join(ch for ch in a[2] if ch.isalpha())[:3] or 'run')
    if c['f'] == 'qk':
        v = a[2]
        return 'num' if not isinstance(v, str) else 'hms' if ':' in v else 'text'
    if c['f'] == 'ne':
        return 'space' if any(ch.isspace() for ch in a[0]) else 'plain'
    return 'x'


def run(tier):
    rep = Report('C18', tier, 'translation_validation')
    quick = tier == 'quick'
    rng = random.Random(common.seed() * 59 + 18)
    if not shutil.which('node'):
        raise MachineryError('node is not available')
    with Scratch('C18') as sc:
        specdir = common.prepare_spec_dir(sc)
        C = cases(quick, rng)
        shards = common.shard(C, common.NCPU)
        with Pool(common.NCPU) as pool:
            py = [x for part in pool.map(_py_job, shards) for x in part]
            js = [x for part in pool.map(_js_job, [(s, sc.path, k) for k, s in enumerate(shards)]) for x in part]
        recs = [{'py': p, 'js': j, 'opt': bool(c.get('opt'))} for p, j, c in zip(py, js, C)]
        reports, outs = common.validate_records(specdir, sc, 'Trace_Port', recs)
        per = {}
        for c in C:
            per[c['f']] = per.get(c['f'], 0) + 1
        nd = 0
        for pr in reports:
            c = C[pr['index']]
            nd += 1
            for cl in pr['clauses']:
                rep.add_violation('%s:%s:%s' % (c['f'], cl, input_class(c)),
                                  '%s: %s%r python -> %s, javascript -> %s' % (cl, c['f'], tuple(c['a']), show(py[pr['index']]), show(js[pr['index']])),
                                  {'case': c})
        rep.setcov('programs', len(per))
        rep.setcov('disagreements_checked', nd)
        rep.setcov('cases_per_pair', per)
        rep.count('evaluations', 2 * len(C))
        rep.setcov('distinct_nontrivial', len(C))
        rep.setcov('rule', 'distinct (function pair, input) cases executed in both languages')
        for r in outs:
            rep.absorb_tlc(r, traces=1)
        for i in (0, len(C) // 2, len(C) - 1):
            rep.sample({'case': C[i], 'python': show(py[i]), 'javascript': show(js[i])})
    rep.assumptions += ['js/src/*.js are loaded unmodified through a CommonJS shim that rewrites the import lines (no build step)',
                        'Python is the reference; it is bound to the exact specifications by C06 / C11']
    return rep.finish()


def show(r):
    if r['t'] == 'str':
        return repr(''.join(chr(c) for c in r['v']))
    if r['t'] == 'num':
        import struct
        b = (r['v'][0] << 43) | (r['v'][1] << 22) | r['v'][2]
        return repr(struct.unpack('>d', struct.pack('>Q', b))[0])
    return '%s%s' % (r['t'], (':%s' % r['v']) if r['t'] == 'bool' else '')


def replay(rec):
    c = rec['replay']['case']
    with Scratch('C18r') as sc:
        print('  python     ->', show(_py_job([c])[0]))
        print('  javascript ->', show(_js_job(([c], sc.path, 0))[0]))
    return 0
