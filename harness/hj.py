"""Driver/recorder for the real athlib.highjump.HighJumpCompetition.

A *call* is {"op": "add"|"bar"|"o"|"x"|"-"|"r", "b": bib, "h": centimetres}.
snapshot(c) is the projection of the public attributes in exactly the shape of the `hj`
record of specs/HighJump.tla, so TLC can compare observed and model states with `=`.
"""
import copy
from decimal import Decimal
from . import common

_OPS = {'o': 'cleared', 'x': 'failed', '-': 'passed', 'r': 'retired'}
_LOGOP = {'add_jumper': 'add', 'set_bar_height': 'bar', 'cleared': 'o', 'failed': 'x', 'passed': '-', 'retired': 'r'}


def lib():
    common.use_repo()
    from athlib.highjump import HighJumpCompetition
    from athlib.exceptions import RuleViolation
    return HighJumpCompetition, RuleViolation


def dec(cmv):
    return (Decimal(int(cmv)) / Decimal(100)).quantize(Decimal('0.01'))


def cm(h):
    return int((Decimal(str(h)) * 100).to_integral_value())


_MISSING = object()


def _internal(jp, name, default, conv):
    """A bookkeeping attribute of Jumper the mechanism model mirrors (not an observable of any property).  A refactoring
    may rename or drop it: the snapshot then carries `default`, which shows up as model drift, never as a violation or a
    harness failure."""
    v = getattr(jp, name, _MISSING)
    if v is _MISSING:
        return default
    try:
        return conv(v)
    except Exception:
        return default


def _best_index(c, jp):
    """1-based column of the clearance that set the athlete's best (0: none) - read off the public card, heights and best
    rather than the private `highest_cleared_index` (whose "none" sentinel and very existence are the library's business:
    mutant -1 -> -2 of the sweep, benign B02): the first column at the best height that holds a clearance."""
    try:
        best = jp.highest_cleared
        for i, cell in enumerate(jp.attempts_by_height):
            if 'o' in cell and i < len(c.heights) and c.heights[i] == best:
                return i + 1
        return 0
    except Exception:
        v = _internal(jp, 'highest_cleared_index', -2, int)
        return v + 1 if v >= 0 else 0


def snapshot(c):
    j = {}
    try:
        out = {id(x) for x in c.eliminated}            # public view: the eliminated athletes
    except Exception:
        out = None
    for jp in c.jumpers:
        pub = jp.place
        j[str(jp.bib)] = {
            'card': [list(a) for a in jp.attempts_by_height],
            'best': cm(jp.highest_cleared),
            'bidx': _best_index(c, jp),
            'elim': (id(jp) in out) if out is not None else _internal(jp, 'eliminated', False, bool),
            'dism': _internal(jp, 'dismissed', False, bool), 'lim': _internal(jp, 'round_lim', -1, int),
            'cf': _internal(jp, 'consecutive_failures', -1, int), 'p': _internal(jp, '_place', -1, int),
            'pub': 0 if pub == '' else -1 if pub in ('DQ', 'DNS') else int(pub),
        }
        if getattr(jp, 'order', None) in ('DQ', 'DNS'):
            j[str(jp.bib)]['dq'] = True          # (the field exists for DQ / DNS entries only, see HighJump.tla)
    log = []
    for a, v in c.actions:
        op = _LOGOP.get(a, a)
        if op == 'add':
            log.append({'op': 'addq' if v.get('order') in ('DQ', 'DNS') else 'add', 'b': str(v.get('bib')), 'h': 0})
        elif op == 'bar':
            log.append({'op': 'bar', 'b': '', 'h': cm(v)})
        else:
            log.append({'op': op, 'b': str(v), 'h': 0})
    try:
        ranked = [str(x.bib) for x in c.ranked_jumpers]
    except Exception:
        ranked = []
    return {'state': c.state, 'heights': [cm(h) for h in c.heights], 'bar': cm(c.bar_height),
            'order': [str(x.bib) for x in c.jumpers], 'ranked': ranked,
            'j': j, 'log': log}


_LETTER = {'cleared': 'o', 'failed': 'x', 'passed': '-', 'retired': 'r'}


def views(c):
    """The derived, read-only views of a competition (properties of the real object): trials (bib, height, letter),
    remaining / eliminated athletes in jumping order, is_finished, is_running."""
    try:
        tr = [[str(b), cm(h) if h is not None else 0, str(x)] for b, h, x in c.trials]
        return {'ok': True, 'trials': tr, 'rem': [str(j.bib) for j in c.remaining], 'eli': [str(j.bib) for j in c.eliminated],
                'fin': bool(c.is_finished), 'run': bool(c.is_running)}
    except Exception as e:
        return {'ok': False, 'trials': [], 'rem': [], 'eli': [], 'fin': False, 'run': False}


def obs(snap):
    """The observables named by C02/C08 (trials are a function of the log)."""
    return {'state': snap['state'], 'heights': snap['heights'], 'bar': snap['bar'],
            'cards': {b: v['card'] for b, v in snap['j'].items()},
            'bests': {b: v['best'] for b, v in snap['j'].items()},
            'places': {b: v['pub'] for b, v in snap['j'].items()}}


def apply(c, call, RuleViolation):
    """Issue one call on the real object; returns the outcome class."""
    op = call['op']
    try:
        if op == 'add':
            c.add_jumper(bib=call['b'])
        elif op == 'addq':
            c.add_jumper(bib=call['b'], order='DQ')
        elif op == 'bar':
            c.set_bar_height(dec(call['h']))
        else:
            getattr(c, _OPS[op])(call['b'])
        return 'ok'
    except RuleViolation:
        return 'rule'
    except KeyError:
        return 'key'
    except AssertionError:
        return 'assert'
    except Exception as e:          # anything else is reported by class name
        return 'exc:' + type(e).__name__


def run_behaviour(calls, alphabet=None, extras=True):
    """Execute `calls` on a fresh competition, recording after every step the outcome, the
    full snapshot, the outcome of probing every call of `alphabet` on a copy, and (extras)
    the snapshots of from_actions() and from_matrix(to_matrix())."""
    HJ, RV = lib()
    c = HJ()
    steps = []
    for call in calls:
        out = apply(c, call, RV)
        post = snapshot(c)
        st = {'c': call, 'out': out, 'post': post, 'v': views(c)}
        st['pr'] = probe_all(c, post, alphabet, RV) if alphabet else []
        if extras:
            st['rep'] = replay_log(c)
            st['rt'] = round_trip(c, HJ)
        steps.append(st)
    return steps


def probe_all(c, snap, alphabet, RV):
    out = []
    cc = copy.deepcopy(c)
    for call in alphabet:
        o = apply(cc, call, RV)
        post = snapshot(cc)
        same = (post == snap)
        rec = {'c': call, 'out': o, 'same': same}
        if not same:
            if o != 'ok':
                rec['post'] = post      # a refusal that changed something: log what it became
            cc = copy.deepcopy(c)
        out.append(rec)
    return out


def replay_log(c):
    try:
        c2 = c.from_actions()
        return {'ok': True, 'snap': snapshot(c2), 'v': views(c2)}
    except Exception as e:
        return {'ok': False, 'exc': type(e).__name__, 'snap': EMPTY, 'v': views(None)}


def round_trip(c, HJ):
    try:
        m = c.to_matrix()
        return {'ok': True, 'snap': snapshot(HJ.from_matrix(m))}
    except Exception as e:
        return {'ok': False, 'exc': type(e).__name__, 'snap': EMPTY}


EMPTY = {'state': 'scheduled', 'heights': [], 'bar': 0, 'order': [], 'ranked': [], 'j': {}, 'log': []}
