"""C13 - UK age groups follow the rule cut-off dates for every birth and meeting date.

(a) TLC proves theorems about the reference functions (AgeGroups!TF / XC): total, monotone in the
    birth date, the vets / underage options change only masters / under-11 outcomes.
(b) the real calc_uka_age_group is swept over competition dates of a full leap cycle x birth
    dates (quick: windows around every anniversary of the reference dates, ages 0-110, five
    option/input-form columns; thorough: additionally the complete 110-year birth axis for the
    default options), recorded as run-length encoded labels along the birth-date axis.
(c) Trace_AgeGroups.tla checks, for *every* birth date of every run, observed = rule text where the
    property asserts it, and the structural clauses on all dates.
"""
import random
from datetime import date, timedelta
from multiprocessing import Pool
from . import common
from .common import Report, Scratch, MachineryError

FIRST, LAST = date(2021, 1, 1), date(2024, 12, 31)
COLS = [(True, False, False), (False, False, False), (True, True, False), (False, True, False), (True, False, True)]


def label(fn, b, m, cat, vets, ua, as_str):
    try:
        r = fn(b.isoformat() if as_str else b, m, cat, vets=vets, underage=ua)
        return r if isinstance(r, str) else 'other:%r' % (r,)
    except Exception as e:
        return 'exc:' + type(e).__name__


def anniversary(ref, age):
    y = ref.year - age
    try:
        return date(y, ref.month, ref.day)
    except ValueError:
        return date(y, 2, 28)


def _work(job):
    common.use_repo()
    from athlib.uka.agegroups import calc_uka_age_group as fn
    cat, mo, mode = job
    m = date.fromordinal(mo)
    ncols = 5 if mode == 'windows' else 1
    if mode == 'windows':
        days = set()
        prior = date(m.year, 8, 31)
        if prior > m:
            prior = date(m.year - 1, 8, 31)
        for age in range(0, 111):
            for ref in (m, date(m.year, 8, 31), date(m.year, 12, 31), prior):
                a = anniversary(ref, age).toordinal()
                days.update(range(a - 2, a + 3))
            f = date(m.year - age, 2, 27).toordinal()
            days.update(range(f, f + 5))
        days = sorted(d for d in days if d <= mo)
    else:
        lo = date(m.year - 110, m.month, 1).toordinal()
        days = range(lo, mo + 1)
    runs = []
    prev = None
    # interference (results discarded): the same function asked about other competition dates - the season's cut-off
    # days, the neighbouring days and years, the other categories - before and during the sweep.  The age group is a
    # function of the two dates: nothing an earlier call computed may leak into a later answer.
    others = [date(m.year, 8, 31), date(m.year + 1, 8, 31), date(m.year - 1, 8, 31), date(m.year, 9, 1), date(m.year, 12, 31),
              date(m.year, 1, 1), m + timedelta(days=1), m - timedelta(days=1), date(m.year + 1, m.month, min(m.day, 28)),
              date(m.year - 1, m.month, min(m.day, 28))]

    def interfere(b, k):
        om = others[k % len(others)]
        # calls the function refuses or may refuse (rule 4): an unknown category, junk dates, birth after the competition
        for a in ((b, om, 'NOSUCH'), ('not a date', om, cat), (b, 'not a date', cat), (om, b, cat), (None, om, cat)):
            try:
                fn(a[0], a[1], a[2])
            except Exception:
                pass
        for c2 in ('TF', 'XC', 'ROAD'):
            label(fn, b, om, c2, True, False, False)
        label(fn, b, others[(k + 3) % len(others)], cat, False, True, k % 2 == 0)
    for k, om in enumerate(others):
        interfere(date(m.year - 13, 9, 15), k)
    for i, d in enumerate(days):
        b = date.fromordinal(d)
        if i % 89 == 44:
            interfere(b, i // 89)
        labs = [label(fn, b, m, cat, v, u, s) for (v, u, s) in COLS[:ncols]]
        if prev is not None and prev[1] == d - 1 and prev[2:] == labs:
            prev[1] = d
        else:
            prev = [d, d] + labs
            runs.append(prev)
    return {'cat': cat, 'm': mo, 'cols': ncols, 'runs': runs, 'n': len(days) * ncols}


def match_dates(quick):
    out = set()
    d = FIRST
    k = 0
    special = []
    for y in range(FIRST.year, LAST.year + 1):
        for (mm, dd) in ((8, 31), (9, 30), (10, 1), (12, 31), (1, 1), (2, 28), (3, 1), (9, 1), (8, 30)):
            special.append(date(y, mm, dd))
        if y % 4 == 0:
            special.append(date(y, 2, 29))
    while d <= LAST:
        if not quick or k % 5 == 0 or any(abs((d - s).days) <= 1 for s in special):
            out.add(d.toordinal())
        d += timedelta(days=1)
        k += 1
    return sorted(out)


def run(tier):
    rep = Report('C13', tier, 'model_checking')
    quick = tier == 'quick'
    with Scratch('C13') as sc:
        specdir = common.prepare_spec_dir(sc)
        with open(specdir + '/MC_AgeGroups.cfg') as f:
            cfg = f.read().replace('Stride = 29', 'Stride = %d' % (29 if quick else 5))
        with open(specdir + '/MC_AgeGroups_run.cfg', 'w') as f:
            f.write(cfg)
        r = common.run_tlc(specdir, 'MC_AgeGroups', 'MC_AgeGroups_run.cfg', heap='4g', timeout=3000)
        if r.violated:
            raise MachineryError('the reference age-group functions violate %s' % r.violated)
        rep.absorb_tlc(r)
        md = match_dates(quick)
        jobs = [(cat, mo, 'windows') for cat in ('TF', 'XC') for mo in md]
        jobs += [('ROAD', mo, 'windows') for mo in md[::7]]
        if not quick:
            jobs += [(cat, mo, 'full') for cat in ('TF', 'XC') for mo in range(FIRST.toordinal(), LAST.toordinal() + 1)]
        with Pool(common.NCPU) as pool:
            recs = pool.map(_work, jobs, chunksize=4)
        rep.count('evaluations', sum(x['n'] for x in recs))
        rep.setcov('competition_dates', len(md))
        rep.setcov('records', len(recs))
        labels_seen = {l for x in recs for run_ in x['runs'] for l in run_[2:]}
        rep.setcov('labels_seen', sorted(labels_seen))
        for need in ('U9', 'U11', 'U13', 'U15', 'U17', 'U20', 'SEN', 'V35', 'V100', 'V110'):
            if need not in labels_seen:
                raise MachineryError('vacuity guard: label %s never observed' % need)
        slim = [{k: v for k, v in x.items() if k != 'n'} for x in recs]
        reports, outs = common.validate_records(specdir, sc, 'Trace_AgeGroups', slim, timeout=6000)
        for r in outs:
            rep.absorb_tlc(r, traces=1)
        for pr in reports:
            x = recs[pr['index']]
            m = date.fromordinal(x['m'])
            at = pr.get('at') or []
            b = date.fromordinal(at[0]).isoformat() if at else '?'
            for cl in pr['clauses']:
                rep.add_violation('%s:%s:%s' % (cl, x['cat'], 'JanSep' if m.month <= 9 else 'OctDec'),
                                  '%s: %s competition %s, birth %s..: observed %s' % (cl, x['cat'], m.isoformat(), b, at[2:] if at else ''),
                                  {'cat': x['cat'], 'match': m.isoformat(), 'birth': b})
        rep.setcov('distinct_nontrivial', sum(len(x['runs']) for x in recs))
        rep.setcov('rule', 'distinct maximal runs of constant labels along the birth-date axis (each a group boundary observed)')
        rep.setcov('exhaustive', not quick)
        for x in (recs[0], recs[len(recs) // 2]):
            rep.sample({'cat': x['cat'], 'competition': date.fromordinal(x['m']).isoformat(),
                        'runs': [[date.fromordinal(r_[0]).isoformat(), date.fromordinal(r_[1]).isoformat()] + r_[2:] for r_ in x['runs'][:4]]})
    rep.assumptions += ['rule-text equality asserted for TF on 1 Jan-30 Sep and for XC/ROAD on 1 Oct-30 Aug (DESIGN 5/C13); structural clauses on all dates',
                        'competition dates 2021-01-01..2024-12-31 (one leap cycle); births up to 110 years earlier']
    return rep.finish()


def replay(rec):
    common.use_repo()
    from athlib.uka.agegroups import calc_uka_age_group as fn
    r = rec['replay']
    m = date.fromisoformat(r['match'])
    b = date.fromisoformat(r['birth'])
    for k in range(-1, 3):
        bb = b + timedelta(days=k)
        print('  birth %s: %s' % (bb, [label(fn, bb, m, r['cat'], v, u, s) for (v, u, s) in COLS]))
    return 0
