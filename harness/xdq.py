"""Extension (not a listed property, not in MANIFEST.json): DQ / DNS entries of a high-jump competition.

`add_jumper(order='DQ')` registers an athlete who takes no part: the code refuses their trials while the competition is
running and shows the order as their place.  HighJump.tla models them (field `dq`, call `addq`); at the rule level the
competition is the one among the others.  TLC explores every call sequence of a 2-athlete competition in which either
athlete may be such an entry (mechanism model, every call legal or not), emits witnesses of every state in which a
property clause fails, and the witnesses plus DQ variants of the competition scripts are replayed on the real object and
validated by Trace_HighJump.tla.  Informational: writes evidence/XDQ.json, exits 0 unless the machinery fails.

What it shows on the current tree: refusals still change nothing and the mechanism model still predicts every step
(drift 0), but a competition with a DQ / DNS entry never ends - the entry is never eliminated, so `remaining` is never
empty and never a single cleared leader: after everybody else is out the state stays 'started' (`state_vs_cards`),
no jump-off is ever started, and the card export loses the entry's status (`card_round_trip_differs`)."""
import json, random
from . import common, hj, hjcheck
from .common import Report, Scratch, MachineryError


def with_dq(calls, rng):
    """Turn one registration of a script into a DQ / DNS entry (that athlete's later trials become refused calls)."""
    adds = [i for i, c in enumerate(calls) if c['op'] == 'add']
    if len(adds) < 2:
        return None
    k = rng.choice(adds)
    out = [dict(c) for c in calls]
    out[k]['op'] = 'addq'
    return out


def run(tier):
    rep = Report('XDQ', tier, 'model_checking')
    rng = random.Random(common.seed() + 91)
    quick = tier == 'quick'
    with Scratch('XDQ') as sc:
        specdir = common.prepare_spec_dir(sc)
        nm = hjcheck.mc_cfg(specdir, 'MC_dq', 2, [100, 105] if quick else [0, 100, 105], 2 if quick else 3, 0, 'all', 0,
                            ['EmitBad'], with_dq=True)
        r = common.run_tlc(specdir, nm, nm + '.cfg', workers=8, timeout=3000, heap='6g')
        rep.absorb_tlc(r)
        model_bad = {}
        for pr in r.printed:
            for cl in pr.get('bad', []):
                model_bad[cl] = model_bad.get(cl, 0) + 1
        rep.setcov('model', dict(athletes=2, distinct_states=r.distinct, transitions=r.generated, depth=r.depth,
                                 clause_failures_in_emitted_witnesses=model_bad))
        jobs = []
        alpha = hjcheck.alphabet(2, [100, 105, 110]) + [hjcheck.E('addq', 'A'), hjcheck.E('addq', 'B')]
        for pr in r.printed[:400 if quick else 4000]:
            if pr.get('log'):
                jobs.append(('last', pr['log'], alpha, True))
        n_model = len(jobs)
        for i in range(150 if quick else 1500):
            nb = rng.choice([2, 3, 3, 4])
            calls = hjcheck.gen_tie_competition(rng, nb) if i % 3 == 0 else hjcheck.gen_competition(rng, nb, wild=0.05)
            calls = with_dq(calls, rng)
            if calls:
                jobs.append(('full', calls, None, i % 4 == 0))
        jobs.append(('full', hjcheck.expand('+A +B! |100 Ao |105 Axxx |110 Ao'), alpha, True))
        traces = hjcheck.replay_all(jobs)
        reports = hjcheck.validate_traces(specdir, sc, traces, rep)
        viol, drift, examples = {}, {}, {}
        for pr in reports:
            tgt = viol if pr['kind'] == 'viol' else drift if pr['kind'] == 'drift' else None
            if tgt is None:
                continue
            for cl in pr['clauses']:
                tgt[cl] = tgt.get(cl, 0) + 1
                if cl not in examples:
                    job = jobs[pr['trace']]
                    calls = job[1][:pr['l']] if job[0] == 'full' else job[1]
                    examples[cl] = ' '.join(hjcheck.fmt_call(c) for c in calls[-16:])
        nsteps = sum(len(t['steps']) for t in traces)
        states = {}
        for t in traces:
            for s in t['steps']:
                states[s['post']['state']] = states.get(s['post']['state'], 0) + 1
        rep.setcov('dq_entries', dict(model_witnesses=n_model, scripted=len(jobs) - n_model, steps=nsteps, observed_state_counts=states,
                                      monitor_clause_failures=viol, model_deviations=drift, first_example_per_clause=examples))
        rep.count('evaluations', nsteps + sum(len(s.get('pr', [])) for t in traces for s in t['steps']))
        rep.setcov('distinct_nontrivial', len({json.dumps(s['post'], sort_keys=True) for t in traces for s in t['steps']}))
        rep.setcov('rule', 'distinct observed snapshots of competitions with a DQ / DNS entry')
        rep.sample({'calls': ' '.join(hjcheck.fmt_call(c) for c in jobs[-1][1]), 'final_state': traces[-1]['steps'][-1]['post']['state']})
        print('XDQ: %d steps of %d behaviours with DQ / DNS entries; model %d states' % (nsteps, len(traces), r.distinct))
        print('  monitor clause failures (rule level: the entry takes no part):', json.dumps(viol, sort_keys=True))
        print('  mechanism-model deviations:', json.dumps(drift, sort_keys=True))
        for cl, ex in sorted(examples.items()):
            print('    %-34s e.g. after ... %s' % (cl, ex))
    rep.assumptions += ['informational extension: results are not verdicts on a listed property']
    rep.violations = []
    rep.drift = []
    return rep.finish()


def replay(rec):
    return 0
