"""C12 - performance validation returns plausible, well-formed marks or the given error.

Event codes from the TLC-generated language (plus the customary loose names) x texts from a grammar of
plausible and implausible entries x gender x precision x a custom error class are fed to
check_performance_for_discipline; the returned string is tokenised and Trace_PerfCheck.tla (PerfCheck.tla on
CodeText.tla - event classes decided by the automaton) checks the output grammar, the speed / record
plausibility limits in integer arithmetic, the exception class and idempotence."""
import os, json, re, random, itertools, traceback
from multiprocessing import Pool
from . import common, lang
from .common import Report, Scratch, MachineryError

_TIME = re.compile(r'^(\d+)(?::(\d+))?(?::(\d+))?(?:(\.)(\d*))?$')


class Custom(Exception):
    pass


def tokenise(txt):
    m = _TIME.match(txt) if isinstance(txt, str) else None
    if not m or any(len(g) > 7 for g in m.group(1, 2, 3) if g):
        return {'ok': False, 'fields': [], 'widths': [], 'fd': [], 'dot': False}
    fs = [g for g in m.group(1, 2, 3) if g is not None]
    return {'ok': True, 'fields': [int(g) for g in fs], 'widths': [len(g) for g in fs], 'fd': [int(c) for c in (m.group(5) or '')][:6],
            'dot': m.group(4) == '.'}


def texts(quick, rng):
    F1 = ['0', '1', '7', '9', '12', '27', '52', '59', '60', '63', '99', '100', '103', '00', '05', '007']
    F2 = ['00', '03', '15', '33', '59', '60', '75', '99', '5', '0']
    DEC = ['', '.0', '.5', '.62', '.734', '.99', '.999', '.00', ',5', ',33']
    out = set()
    for a in F1:
        for d in DEC:
            out.add(a + d)
    for a in F1:
        for b in F2:
            for sep in ':;':
                for d in (DEC if not quick else DEC[:6]):
                    out.add(a + sep + b + d)
    for a in ['0', '00', '1', '2', '3', '01', '10', '23', '99']:
        for b in ['00', '03', '45', '59', '60', '99', '5']:
            for c in ['00', '17', '59', '60', '99']:
                for sep in ':;':
                    for d in ['', '.2', '.23', '.999']:
                        out.add(a + sep + b + sep + c + d)
    out.update(['', ' ', 'abc', '9.73w', '1:2:3:4', '-5', '+5', '1e3', '2.34m', '  2.34  ', '12.', '.5', ':', '1:', ':30', '1::30',
                '5875', '10001', '9999', '10000', '0', '25', '2:03', '6789.12', '10002.34', 'Soooo Highhhh!!!', '1:17:42:03',
                '0:103', '1.2.3', '4,5,6', '1;2:3', 'nan', 'inf', '1_0', '٣:٠٠', '１２.５'])
    out = sorted(out)
    if quick:
        keep = set(rng.sample(out, 1400))
        out = [t for t in out if t in keep or len(t) <= 5]
    return out


CODES = ['60', '100', '200', '400', '800', '1500', '3000', '5000', '10000', 'MILE', '110H', '400H', '3000SC', '5K', '10K', 'HM', 'MAR',
         '20KW', '3000W', '4x100', '4x400', 'XC', '100K', 'HJ', 'PV', 'LJ', 'TJ', 'SP', 'DT', 'HT', 'JT', 'WT', 'hj', 'Pv', 'jt', 'tJ', 'SP7.26K', 'JT800',
         'SHJ', 'SLJ', 'OT', 'TART', 'DEC', 'HEP', 'PEN', 'dec', 'H1', 'L9', 'BAL', 'SPB', 'T30', '24HR', '80H76.2cm8m', '2MT',
         '4xRELAY', 'SC', '300', '150', '1000', '2000W', '4x1500']
LOOSE = ['60m', '100m', '200m', '400m', '800m', '1500m', '3000m', '5000m', '10000m', '3000mW']


def _site(exc):
    tb = traceback.extract_tb(exc.__traceback__)
    for fr in reversed(tb):
        if '/athlib/' in fr.filename:
            return '%s:%s' % (fr.name, re.sub(r'\s+', ' ', fr.line or '')[:60])
    return '?'


_PINNED = None


def record_for(code, g, live):
    """The world record the 120 % limit refers to: the pinned table (refdata/field_records.json), never a table the module
    under test has built (seed C12-h: the 'all' table aliased the men's one and overwrote the men's discus record at import).
    A live entry a little above the pinned one (a new record, up to 2 %) is followed; events only the live table knows use it."""
    global _PINNED
    if _PINNED is None:
        with open(os.path.join(common.VERIF, 'refdata', 'field_records.json')) as f:
            d = json.load(f)
        d['all'] = {k: max(d['m'][k], d['f'].get(k, 0)) for k in d['m']}
        _PINNED = d
    gg = (g or 'all').lower()
    gg = gg if gg in ('m', 'f') else 'all'
    ev = code.strip().upper()
    pinned = _PINNED[gg].get(ev)
    lv = (live.get(gg) or live.get('all') or {}).get(ev) if isinstance(live, dict) else None
    if pinned is None:
        return lv
    if isinstance(lv, (int, float)) and pinned < lv <= pinned * 1.02:
        return lv
    return pinned


def _job(job):
    common.use_repo()
    from athlib.utils import check_performance_for_discipline as cp, get_distance, field_event_record
    from athlib import check_event_code
    try:
        from athlib.utils import FIELD_EVENT_RECORDS_BY_GENDER as RECORDS      # followed only for entries the pinned table lacks
    except ImportError:                                                          # or that moved up by a new record (<= 2 %)
        RECORDS = {}
    code, loose, tl = job
    if isinstance(code, (list, tuple)):
        # a group of spellings of one discipline, asked in turn for every text (the order rotating): what the function
        # answers for one spelling must not depend on which other spelling it has seen before
        out = []
        group = list(code)
        for i, item in enumerate(tl):
            k = i % len(group)
            for c in group[k:] + group[:k]:
                out += _job((c, loose, [item]))
        return out
    out = []
    try:
        dist = get_distance(code)
        dist = int(dist) if isinstance(dist, (int, float)) else -1
    except Exception:
        dist = -1
    npos = [len(code) if isinstance(code, str) else 0]
    for text, g, prec in tl:
        kw = {'errorKlass': Custom}
        if prec is not None:
            kw['prec'] = prec
        if g is not None:
            kw['gender'] = g
        site = ''
        # the published positional order (discipline, textvalue, gender, ulpc, errorKlass, prec) - the JavaScript port has
        # positional arguments only - is used for every third call; the others name their options
        npos[0] += 1
        positional = npos[0] % 3 == 0
        try:
            if positional:
                r = cp(code, text, g if g is not None else 'all', 120 / 100.0, Custom, prec)
            else:
                r = cp(code, text, **kw)
            o = 'ok' if isinstance(r, str) else 'exc'
        except Custom:
            r, o = '', 'err'
        except Exception as e:
            r, o, site = '', 'exc', type(e).__name__ + '@' + _site(e)
        again = 'same'
        if o == 'ok':
            try:
                r2 = cp(code, r, **kw)
                again = 'same' if r2 == r else 'differs'
            except Custom:
                again = 'err'
            except Exception:
                again = 'exc'
        # the record is looked up here, in the library's table, not by the function under test: whichever way the
        # discipline and the gender are spelt, the limit is the one of the event (men's / women's / larger of the two)
        rec = record_for(code, g, RECORDS)
        numberlike = False
        if o == 'ok':
            try:
                float(r)
                numberlike = True
            except ValueError:
                pass
        out.append({'code': lang.cps(code), 'chk': bool(check_event_code(code)), 'loose': loose, 'dist': dist,
                    'prec': -1 if prec is None else prec, 'out': o, 'res': tokenise(r), 'again': again, 'empty': o == 'ok' and r == '',
                    'rec120c': int(rec * 120) if rec else -1, 'numberlike': numberlike,
                    '_t': text, '_g': g, '_r': r, '_site': site})
    return out


def run(tier):
    rep = Report('C12', tier, 'model_checking')
    quick = tier == 'quick'
    rng = random.Random(common.seed() * 43 + 12)
    with Scratch('C12') as sc:
        tr, specdir, codes, near, pats = lang.generate(sc, rep)
        T = texts(quick, rng)
        extra = rng.sample([c for c in codes if len(c) <= 8 and c == c.strip()], 25 if quick else 150)   # (a trailing newline is only admitted by `$`)
        combos = []
        for t in T:
            combos.append((t, None, None))
        tl_small = [(t, g, p) for t in T[::5] for g, p in (('m', 2), ('f', 0), ('all', 3), ('F', None))]
        jobs = []
        for c in CODES:
            jobs.append((c, False, combos + tl_small))
        for c in LOOSE:
            jobs.append((c, True, combos + tl_small))
        for c in extra:
            jobs.append((c, False, combos[::4]))
        # every code of the generated language and every realistic code meets a short list of probes: well-formed but absurd
        # entries next to plausible ones - a code that a changed pattern sends down the wrong branch (seed C12-g: two-digit
        # hurdles treated as fixed-duration races) must not depend on being drawn into the sample above
        PROBES = [(t, None, None) for t in ('0', '0.5', '3.0', '9.58', '12.34', '59.99', '1:03.50', '2:05:30', '2:05:30.5', '99999',
                                             '100', 'nan', '1e5', 'inf', '-5', '', '7654', '45.6', '4:30')]
        done = set(CODES) | set(extra)
        wide = [c for c in sorted(set(codes) | set(lang.REALISTIC)) if c not in done and len(c) <= 10 and c == c.strip()]
        for c in wide:
            jobs.append((c, False, PROBES))
        rep.setcov("codes_probed", len(wide))
        # field events around the 120 % limit of the world record, for every gender spelling: marks at 100 %, 119 %, the
        # limit itself, 121 %, 123 %, 130 % of the pinned men's / women's / larger record
        record_for('HJ', None, {})
        nrec = 0
        for ev in sorted(_PINNED['m']):
            tl = []
            for gsp, tbl in ((None, 'all'), ('all', 'all'), ('m', 'm'), ('M', 'm'), ('f', 'f'), ('F', 'f')):
                r = _PINNED[tbl][ev]
                for k in (1.0, 1.19, 1.2, 1.21, 1.23, 1.3):
                    tl.append(('%.2f' % (r * k), gsp, None))
                    nrec += 1
            for sp in (ev, ev.lower(), ev.capitalize()):
                jobs.append((sp, False, tl))
        rep.setcov('record_limit_probes', nrec * 3)
        # spelling groups (letter case): one process serves all spellings of a discipline, in rotating and reversed order
        for c in CODES:
            grp = []
            for v in (c, c.lower(), c.capitalize(), c.upper(), c.swapcase()):
                if v not in grp:
                    grp.append(v)
            if len(grp) > 1:
                jobs.append((grp, False, combos[::3]))
                jobs.append((list(reversed(grp)), False, combos[1::3]))
        # the (discipline, text) pairs the repository's own tests use, with every option column
        suite = {}
        for call in common.suite_corpus().get('athlib.utils.check_performance_for_discipline', []):
            a = call.get('a', [])
            if len(a) >= 2 and isinstance(a[0], str) and isinstance(a[1], str):
                suite.setdefault(a[0], set()).add(a[1])
        for c, ts in sorted(suite.items()):
            jobs.append((c, bool(re.match(r'^\d+mW?$', c)), [(t, g, p) for t in sorted(ts) for g, p in ((None, None), ('m', 2), ('f', 0), ('all', 3))]))
        rep.setcov('repository_suite_pairs', sum(len(v) for v in suite.values()))
        with Pool(common.NCPU) as pool:
            parts = pool.map(_job, jobs, chunksize=1)
        recs, meta = [], []
        for (c, loose, tl), part in zip(jobs, parts):
            for x in part:
                meta.append((''.join(chr(k) for k in x['code']), x.pop('_t'), x.pop('_g'), x.pop('_r'), x.pop('_site')))
                recs.append(x)
        rep.count('evaluations', len(recs) * 2)
        reports, outs = common.validate_records(specdir, sc, 'Trace_PerfCheck', recs, timeout=3000)
        for r in outs:
            rep.absorb_tlc(r, traces=1)
        outcomes = {}
        for x in recs:
            outcomes[x['out']] = outcomes.get(x['out'], 0) + 1
        rep.setcov('outcomes', outcomes)
        if outcomes.get('ok', 0) < 1000 or outcomes.get('err', 0) < 1000:
            raise MachineryError('vacuity guard: too few accepted / refused entries')
        drifted = lang.drifted(tr, reports, rep)
        for pr in reports:
            x = recs[pr['index']]
            c, t, g, r, site = meta[pr['index']]
            if pr['kind'] == 'drift' or pr['index'] in drifted:
                continue
            for cl in pr['clauses']:
                rep.add_violation(signature(cl, c, t, r, site, x, pats),
                                  '%s: check_performance_for_discipline(%r, %r, gender=%r, prec=%s) -> %s %r%s; again: %s' % (
                                      cl, c, t, g, None if x['prec'] < 0 else x['prec'], x['out'], r, (' [' + site + ']') if site else '', x['again']),
                                  {'code': c, 'text': t, 'gender': g, 'prec': None if x['prec'] < 0 else x['prec']})
        rep.setcov('distinct_nontrivial', len({(m[0], m[1]) for m in meta}))
        rep.setcov('rule', 'distinct (discipline, text) pairs')
        for i in (0, len(recs) // 2, len(recs) - 1):
            rep.sample({'discipline': meta[i][0], 'text': meta[i][1], 'outcome': recs[i]['out'], 'result': meta[i][3]})
    rep.assumptions += ['event classes are decided by the automaton (PAT_TIMED_EVENT / PAT_FIELD / PAT_MULTI); custom-scoring and fixed-duration codes only need a number-like, idempotent result',
                        'a lone seconds field may run to 99.99 (R4): the function asks for mm:ss only above 99 seconds and its tests expect 63.10 for 400 m']
    return rep.finish()


def shape(t):
    s = re.sub(r'\d', 'd', t)
    s = re.sub(r'd+', 'd', s)
    return s[:12]


def dist_shape(code):
    """the code with its whitespace removed, upper-cased, numbers collapsed; and whether the spelling was all upper case"""
    raw = re.sub(r'\s+', '', code)
    return '%s:%s' % (re.sub(r'[0-9.]+', 'd', raw.upper())[:16], 'upper' if raw == raw.upper() else 'mixedcase')


def signature(cl, code, text, result, site, x, pats):
    from .c10 import code_class
    cls = 'loose' if x['loose'] else code_class(code, pats)
    if cl == 'raised_other_than_supplied_error':
        return '%s:%s' % (cl, site)           # call site: exception class @ function : source line
    d = x['dist']
    if cl == 'speed_not_checked_for_stated_distance':
        # why the library's estimator might have no figure for this code - by the shape of the code alone
        return '%s:%s:%s' % (cl, dist_shape(code), 'nodist' if d <= 0 else 'dist')
    zone = 'nodist' if d <= 0 else 'le200' if d <= 200 else 'lt800' if d < 800 else 'ge800'
    return '%s:%s:%s:again=%s:result=%s:prec=%s' % (cl, cls.split('+')[0], zone, x['again'], shape(result), 'none' if x['prec'] < 0 else 'set')


def replay(rec):
    common.use_repo()
    from athlib.utils import check_performance_for_discipline as cp
    r = rec['replay']
    kw = {'errorKlass': Custom}
    if r['prec'] is not None:
        kw['prec'] = r['prec']
    if r['gender']:
        kw['gender'] = r['gender']
    try:
        v = cp(r['code'], r['text'], **kw)
        print('  check_performance_for_discipline(%r, %r, %s) -> %r' % (r['code'], r['text'], kw, v))
        try:
            print('  validating %r again -> %r' % (v, cp(r['code'], v, **kw)))
        except Exception as e:
            print('  validating %r again raised %s' % (v, type(e).__name__))
    except Exception as e:
        print('  raised %s (%s)' % (type(e).__name__, e))
    return 0
