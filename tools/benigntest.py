"""Run checks against a property-preserving ("benign") change and expect them to stay green.
usage: benigntest.py <benign-id> <property> <agent-worktree> [--checks C03,C02] [--tier quick]
 1. copies patch.diff / argue.py / notes.md from <agent-worktree>/_seed into /verif/benign/<id>/
 2. confirms in a fresh scratch worktree: patch applies, suite still 92 passed / same 3 failures,
    argue.py exits 0 before and after
 3. applies the patch to /repo, runs the named checks, undoes it (git checkout -- . ; git clean of new files)
 4. writes meta.json: a check that exits non-zero or prints VIOLATION is an ALARM to be triaged by hand
    (either the change does break the property after all, or the machinery raised a false alarm)
"""
import sys, os, subprocess, shutil, json, time

def sh(cmd, **kw):
    p = subprocess.run(cmd, shell=True, stdout=subprocess.PIPE, stderr=subprocess.STDOUT, **kw)
    return p.returncode, p.stdout.decode('utf8', 'replace')

def main():
    sid, prop, wt = sys.argv[1:4]
    checks = [prop]
    tier = 'quick'
    for i, a in enumerate(sys.argv):
        if a == '--checks': checks = sys.argv[i + 1].split(',')
        if a == '--tier': tier = sys.argv[i + 1]
    dst = '/verif/benign/%s' % sid
    os.makedirs(dst, exist_ok=True)
    seed = os.path.join(wt, '_seed')
    if os.path.isdir(seed):
        for f in os.listdir(seed):
            if os.path.isfile(os.path.join(seed, f)) and os.path.getsize(os.path.join(seed, f)) < 400000:
                shutil.copy(os.path.join(seed, f), dst)
    patch = os.path.join(dst, 'patch.diff')
    argue = os.path.join(dst, 'argue.py')
    scratch = '/tmp/benignconfirm_%s' % sid
    sh('git -C /repo worktree remove --force %s' % scratch)
    sh('git -C /repo worktree add --detach %s HEAD' % scratch)
    meta = {'benign': sid, 'property': prop, 'confirmed': {}}
    argue_cmd = 'cd %s && PYTHONPATH=%s timeout 900 /venv/bin/python %s' % (scratch, scratch, argue)
    if os.path.exists(argue):
        rc0, o0 = sh(argue_cmd)
        meta['confirmed']['argue_on_original'] = {'exit': rc0, 'tail': o0.strip().splitlines()[-1:]}
    rc, out = sh('git -C %s apply %s' % (scratch, patch))
    meta['confirmed']['patch_applies'] = rc == 0
    rc, out = sh('cd %s && PYTHONPATH=%s /venv/bin/python -m pytest -q -p no:cacheprovider tests/ 2>&1 | tail -5' % (scratch, scratch))
    meta['confirmed']['suite_with_change'] = out.strip().splitlines()[-1] if out.strip() else ''
    meta['confirmed']['failed_tests'] = sorted(l.split()[1] for l in out.splitlines() if l.startswith('FAILED'))
    if os.path.exists(argue):
        rc1, o1 = sh(argue_cmd)
        meta['confirmed']['argue_on_changed'] = {'exit': rc1, 'tail': o1.strip().splitlines()[-2:]}
    sh('git -C /repo worktree remove --force %s' % scratch)
    ok = meta['confirmed']['patch_applies'] and '92 passed' in meta['confirmed']['suite_with_change'] and '3 failed' in meta['confirmed']['suite_with_change']
    meta['confirmed']['ok'] = ok
    print('confirm:', json.dumps(meta['confirmed'])[:700])
    meta['checks'] = {}
    if ok:
        # the checks run against a scratch worktree carrying the change (ATHLIB_REPO), so /repo stays untouched and
        # several changes can be examined at the same time
        run = '/tmp/benignrun_%s' % sid
        sh('git -C /repo worktree remove --force %s' % run)
        sh('git -C /repo worktree add --detach %s HEAD' % run)
        rc, out = sh('git -C %s apply %s' % (run, patch))
        assert rc == 0, out
        try:
            for c in checks:
                t0 = time.time()
                rc, out = sh('cd /verif && ATHLIB_REPO=%s VERIF_EVIDENCE_DIR=%s bin/check %s --tier %s' % (run, os.path.join(dst, 'evidence'), c, tier))
                viol = [l for l in out.splitlines() if l.startswith('VIOLATION')]
                what = [l.strip() for l in out.splitlines() if l.strip().startswith('what:')][:4]
                drift = [l.strip() for l in out.splitlines() if l.startswith('DRIFT')][:4]
                meta['checks'][c] = {'tier': tier, 'exit': rc, 'violations': len(viol), 'first': what, 'drift_lines': drift,
                                     'wall_s': round(time.time() - t0, 1), 'summary': out.strip().splitlines()[-1][:300] if out.strip() else ''}
                if rc != 0:
                    open(os.path.join(dst, 'alarm_%s.log' % c), 'w').write(out[-20000:])
                print(sid, c, 'exit', rc, 'violations', len(viol), what[:2], flush=True)
        finally:
            sh('git -C /repo worktree remove --force %s' % run)
            shutil.rmtree(os.path.join(dst, 'evidence'), ignore_errors=True)
    meta['alarm'] = any(v['exit'] != 0 or v['violations'] > 0 for v in meta['checks'].values())
    with open(os.path.join(dst, 'meta.json'), 'w') as f:
        json.dump(meta, f, indent=1)
    print('ALARM' if meta['alarm'] else ('QUIET' if ok else 'UNCONFIRMED'), sid)

main()
