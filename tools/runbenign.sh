#!/bin/sh
# usage: runbenign.sh <prefix> <NN>   -- confirm the change of agent <prefix><NN> and run the checks sharing code with property C<NN>
P=$1; N=$2
case $N in
 01) C=C01,C09,C05,C14,C16;; 02) C=C02,C03,C08;; 03) C=C03,C02,C08;; 04) C=C04,C07,C10,C12,C17,C01;;
 05) C=C05,C11,C01,C09,C18;; 06) C=C06,C18,C12;; 07) C=C07,C04,C10,C17,C12,C18,C11;; 08) C=C08,C02,C03;;
 09) C=C09,C01;; 10) C=C10,C07,C04,C12;; 11) C=C11,C05,C18,C16;; 12) C=C12,C06;; 13) C=C13;;
 14) C=C14,C15,C16,C01;; 15) C=C15,C14,C16;; 16) C=C16,C01,C14,C15,C19,C11;; 17) C=C17;; 18) C=C18,C06,C11,C05;; 19) C=C19,C16;;
esac
mkdir -p /tmp/wt/logs
cd /verif && python3 tools/benigntest.py $P$N C$N /tmp/wt/$P$N --checks $C > /tmp/wt/logs/$P$N.log 2>&1
tail -1 /tmp/wt/logs/$P$N.log
