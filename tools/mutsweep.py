"""Systematic mutation sweep: which small edits of the code behind each property do the checks notice?

  mutsweep.py gen                     enumerate first-order mutants of the functions the properties are anchored in
  mutsweep.py suite  [-j N]           keep the mutants the repository's own suite does NOT notice (92 passed / same 3 failures)
  mutsweep.py check  [-j N] [--only C02,C03] [--limit K]
                                      run the quick checks mapped to each surviving mutant against a scratch copy (ATHLIB_REPO)
  mutsweep.py report                  table: per property killed / survived, survivors listed for triage

State lives in /tmp/mut (scratch) and the result table is written to /verif/seeded/MUTSWEEP.json.
A surviving mutant is not necessarily a miss: it may be equivalent, or break only what no property states.  Survivors are
triaged by hand / by independent agents; a survivor shown to break a property becomes a seed and the check is strengthened.
"""
import ast, os, sys, json, subprocess, shutil, copy, hashlib, time, re
from concurrent.futures import ThreadPoolExecutor

REPO = '/repo'
WORK = '/tmp/mut'
OUT = '/verif/seeded/MUTSWEEP.json'

# file -> list of (function-name regex, [properties whose quick check is run, most likely killer first])
TARGETS = {
    'athlib/highjump.py': [(r'.*', ['C02', 'C03', 'C08'])],
    'athlib/utils.py': [
        (r'str2num|parse_hms|round_up_str_num|format_seconds_as_time', ['C06', 'C18', 'C12']),
        (r'get_distance|get_duration_event_time|_field_order|discipline_sort_key|text_discipline_sort_key|sort_by_discipline', ['C10', 'C15', 'C12']),
        (r'field_event_record|check_performance_for_discipline', ['C12']),
        (r'check_event_code|_norm_\w+|normalize_event_code', ['C07', 'C17', 'C11', 'C18']),
        (r'localpath|resolve_from_url|_add_to_cache|schema_valid|valid_against_schema', ['C19', 'C16']),
        (r'is_hand_timing', ['C18', 'C11']),
        (r'normalize_gender', ['C14', 'C01']),
    ],
    'athlib/athlon_score.py': [(r'.*', ['C01', 'C09', 'C05', 'C16'])],
    'athlib/wma/agegrader.py': [(r'.*', ['C14', 'C15', 'C01', 'C16'])],
    'athlib/implements.py': [(r'.*', ['C17'])],
    'athlib/uka/agegroups.py': [(r'.*', ['C13'])],
    'athlib/tyrving_score.py': [(r'.*', ['C11', 'C05', 'C18'])],
    'athlib/qkids_score.py': [(r'.*', ['C11', 'C05', 'C18'])],
    'athlib/sportshall_score.py': [(r'.*', ['C11', 'C05', 'C16'])],
    'athlib/bulgarian_score.py': [(r'.*', ['C11', 'C05'])],
    'athlib/hungarian_score.py': [(r'.*', ['C05', 'C16'])],
}

CMP_SWAP = {ast.Lt: [ast.LtE, ast.GtE], ast.LtE: [ast.Lt, ast.Gt], ast.Gt: [ast.GtE, ast.LtE], ast.GtE: [ast.Gt, ast.Lt],
            ast.Eq: [ast.NotEq], ast.NotEq: [ast.Eq], ast.In: [ast.NotIn], ast.NotIn: [ast.In], ast.Is: [ast.IsNot], ast.IsNot: [ast.Is]}


def sh(cmd, **kw):
    p = subprocess.run(cmd, shell=True, stdout=subprocess.PIPE, stderr=subprocess.STDOUT, **kw)
    return p.returncode, p.stdout.decode('utf8', 'replace')


def splice(lines, node, text):
    """replace the source of an expression node by text"""
    l0, c0, l1, c1 = node.lineno - 1, node.col_offset, node.end_lineno - 1, node.end_col_offset
    # col offsets are utf8 byte offsets
    b0 = lines[l0].encode('utf8'); b1 = lines[l1].encode('utf8')
    new = b0[:c0].decode('utf8') + text + b1[c1:].decode('utf8')
    return lines[:l0] + [new] + lines[l1 + 1:]


def mutants_of_function(src, lines, fn):
    out = []

    def add(kind, node, newlines):
        out.append({'kind': kind, 'line': node.lineno, 'was': ' '.join(l.strip() for l in lines[node.lineno - 1:node.end_lineno])[:160], 'src': '\n'.join(newlines) + '\n'})

    in_big_literal = set()
    for n in ast.walk(fn):
        if isinstance(n, (ast.List, ast.Dict, ast.Tuple, ast.Set)) and (n.end_lineno - n.lineno) > 6:
            for m in ast.walk(n): in_big_literal.add(id(m))
    for n in ast.walk(fn):
        if id(n) in in_big_literal: continue
        if isinstance(n, ast.Compare) and len(n.ops) == 1:
            for alt in CMP_SWAP.get(type(n.ops[0]), []):
                m = copy.deepcopy(n); m.ops = [alt()]
                add('cmp:%s->%s' % (type(n.ops[0]).__name__, alt.__name__), n, splice(lines, n, '(' + ast.unparse(m) + ')'))
        elif isinstance(n, ast.BoolOp):
            m = copy.deepcopy(n); m.op = ast.Or() if isinstance(n.op, ast.And) else ast.And()
            add('bool:%s' % type(m.op).__name__, n, splice(lines, n, '(' + ast.unparse(m) + ')'))
        elif isinstance(n, ast.UnaryOp) and isinstance(n.op, ast.Not):
            add('not:removed', n, splice(lines, n, '(' + ast.unparse(n.operand) + ')'))
        elif isinstance(n, ast.BinOp) and isinstance(n.op, (ast.Add, ast.Sub)):
            if isinstance(n.op, ast.Add) and (isinstance(n.left, ast.Constant) and isinstance(n.left.value, str) or isinstance(n.right, ast.Constant) and isinstance(n.right.value, str)):
                continue
            m = copy.deepcopy(n); m.op = ast.Sub() if isinstance(n.op, ast.Add) else ast.Add()
            add('arith:%s' % type(m.op).__name__, n, splice(lines, n, '(' + ast.unparse(m) + ')'))
        elif isinstance(n, ast.Constant) and type(n.value) is int and -1000 <= n.value <= 100000:
            for d in (1, -1):
                add('const:%d->%d' % (n.value, n.value + d), n, splice(lines, n, repr(n.value + d)))
        elif isinstance(n, ast.Constant) and type(n.value) is bool:
            add('const:%r->%r' % (n.value, not n.value), n, splice(lines, n, repr(not n.value)))
        elif isinstance(n, ast.IfExp) or isinstance(n, (ast.If, ast.While)):
            t = n.test
            if not isinstance(t, ast.Constant):
                add('cond:False', t, splice(lines, t, 'False'))
                if not isinstance(n, ast.While):
                    add('cond:True', t, splice(lines, t, 'True'))
        if isinstance(n, (ast.Assign, ast.AugAssign, ast.Expr, ast.Raise, ast.Return, ast.Break, ast.Continue)) and n is not fn:
            if isinstance(n, ast.Expr) and isinstance(n.value, ast.Constant): continue      # doc strings
            if isinstance(n, ast.Return) and n.value is None: continue
            ind = lines[n.lineno - 1][:n.col_offset]
            if ind.strip(): continue                                                          # not first on its line (a; b)
            rep = 'return None' if isinstance(n, ast.Return) else 'continue' if isinstance(n, ast.Break) else 'break' if isinstance(n, ast.Continue) else 'pass'
            newl = lines[:n.lineno - 1] + [ind + rep] + lines[n.end_lineno:]
            add('stmt:%s->%s' % (type(n).__name__, rep), n, newl)
    return out


def gen():
    shutil.rmtree(WORK, ignore_errors=True)
    os.makedirs(WORK + '/m', exist_ok=True)
    allm = []
    for path, groups in TARGETS.items():
        src = open(os.path.join(REPO, path)).read()
        lines = src.split('\n')
        if lines and lines[-1] == '': lines = lines[:-1]
        tree = ast.parse(src)
        fns = []
        for n in ast.walk(tree):
            if isinstance(n, (ast.FunctionDef, ast.AsyncFunctionDef)):
                fns.append(n)
        # innermost functions only once: drop nested duplicates by walking top-level defs and class methods
        seen_nodes = set()
        for fn in fns:
            props = None
            for rx, ps in groups:
                if re.fullmatch(rx, fn.name): props = ps; break
            if not props: continue
            for m in mutants_of_function(src, lines, fn):
                key = hashlib.sha1((path + m['src']).encode()).hexdigest()[:12]
                if key in seen_nodes: continue
                seen_nodes.add(key)
                try:
                    compile(m['src'], path, 'exec')
                except SyntaxError:
                    continue
                m.update({'id': key, 'file': path, 'func': fn.name, 'props': props})
                open('%s/m/%s.py' % (WORK, key), 'w').write(m.pop('src'))
                allm.append(m)
    json.dump(allm, open(WORK + '/mutants.json', 'w'), indent=0)
    by = {}
    for m in allm: by[m['file']] = by.get(m['file'], 0) + 1
    print(len(allm), 'mutants', by)


def scratch(mid, m):
    d = '%s/w/%s' % (WORK, mid)
    shutil.rmtree(d, ignore_errors=True)
    os.makedirs(d)
    sh('rsync -a --exclude .git --exclude docs --exclude node_modules --exclude "*.egg-info" --exclude __pycache__ %s/ %s/' % (REPO, d))
    shutil.copy('%s/m/%s.py' % (WORK, mid), os.path.join(d, m['file']))
    return d


BASE_FAIL = ['tests/test_hungarian_score.py::HunTest::test_scores', 'tests/test_hungarian_score.py::HunTest::test_table_lookup',
             'tests/test_import_at_top_level.py::ImportTest::test_fake_signatures']


def suite_one(m):
    d = scratch(m['id'], m)
    rc, out = sh('cd %s && PYTHONPATH=%s timeout 300 /venv/bin/python -m pytest -q -x -p no:cacheprovider tests/ --deselect %s 2>&1 | tail -5'
                 % (d, d, ' --deselect '.join(BASE_FAIL)))
    shutil.rmtree(d, ignore_errors=True)
    last = out.strip().splitlines()[-1] if out.strip() else ''
    ok = last.startswith('90 passed, 2 skipped') and ('failed' not in last) and ('error' not in last)   # docs/ is not copied: 2 doc tests skip
    return m['id'], ok, last[:100]


def suite(jobs):
    ms = json.load(open(WORK + '/mutants.json'))
    done = {}
    if os.path.exists(WORK + '/suite.json'): done = json.load(open(WORK + '/suite.json'))
    todo = [m for m in ms if m['id'] not in done]
    t0 = time.time()
    with ThreadPoolExecutor(jobs) as ex:
        for i, (mid, ok, last) in enumerate(ex.map(suite_one, todo)):
            done[mid] = {'survives_suite': ok, 'last': last}
            if i % 50 == 0:
                json.dump(done, open(WORK + '/suite.json', 'w'))
                print(i, len(todo), round(time.time() - t0), flush=True)
    json.dump(done, open(WORK + '/suite.json', 'w'))
    print('suite survivors', sum(1 for v in done.values() if v['survives_suite']), 'of', len(done))


def check_one(m, only):
    d = scratch(m['id'], m)
    res = {}
    try:
        for c in m['props']:
            if only and c not in only: continue
            ev = '%s/ev/%s' % (WORK, m['id'])
            t0 = time.time()
            rc, out = sh('cd /verif && ATHLIB_REPO=%s VERIF_EVIDENCE_DIR=%s timeout 1500 bin/check %s --tier quick' % (d, ev, c))
            what = [l.strip()[:200] for l in out.splitlines() if l.strip().startswith('what:')][:2]
            res[c] = {'exit': rc, 'what': what, 'wall': round(time.time() - t0), 'tail': out.strip().splitlines()[-1][:200] if out.strip() else ''}
            shutil.rmtree(ev, ignore_errors=True)
            if rc != 0: break           # noticed (1 = violation, 2 = machinery stopped on it): no need to ask the others
    finally:
        shutil.rmtree(d, ignore_errors=True)
    return m['id'], res


def check(jobs, only, limit, cap=0):
    ms = json.load(open(WORK + '/mutants.json'))
    su = json.load(open(WORK + '/suite.json'))
    done = {}
    if os.path.exists(WORK + '/check.json'): done = json.load(open(WORK + '/check.json'))
    todo = [m for m in ms if su.get(m['id'], {}).get('survives_suite') and m['id'] not in done and (not only or set(only) & set(m['props']))]
    # order: one mutant per source line first (comparison / boolean / statement mutants before constants), files taking turns,
    # so that a sweep that is stopped early has still looked at every function of every file
    pri = lambda m: (0 if m['kind'].startswith(('cmp', 'bool', 'not')) else 1 if m['kind'].startswith(('stmt', 'cond')) else 2)
    byfile = {}
    for m in sorted(todo, key=lambda m: (m['file'], m['line'], pri(m), m['id'])):
        byfile.setdefault(m['file'], []).append(m)
    ordered = []
    for f, L in byfile.items():
        seen, first, rest = set(), [], []
        for m in L:
            (rest if (m['line']) in seen else first).append(m)
            seen.add(m['line'])
        byfile[f] = first + rest
    k = 0
    while any(byfile.values()):
        for f in list(byfile):
            if byfile[f]:
                ordered.append(byfile[f].pop(0))
    todo = ordered
    if cap:
        n, capped, later = {}, [], []
        for m in todo:
            k = (m['file'], m['func'])
            n[k] = n.get(k, 0) + 1
            (capped if n[k] <= cap else later).append(m)
        todo = capped
    if limit: todo = todo[:limit]
    print('to check', len(todo), flush=True)
    t0 = time.time()
    with ThreadPoolExecutor(jobs) as ex:
        for i, (mid, res) in enumerate(ex.map(lambda m: check_one(m, only), todo)):
            done[mid] = res
            json.dump(done, open(WORK + '/check.json', 'w'))
            print(i, mid, {c: (r['exit'], r['wall']) for c, r in res.items()}, round(time.time() - t0), flush=True)


def report():
    ms = json.load(open(WORK + '/mutants.json'))
    su = json.load(open(WORK + '/suite.json'))
    ck = json.load(open(WORK + '/check.json')) if os.path.exists(WORK + '/check.json') else {}
    rows = []
    for m in ms:
        s = su.get(m['id'], {})
        r = {'id': m['id'], 'file': m['file'], 'func': m['func'], 'line': m['line'], 'kind': m['kind'], 'was': m['was'],
             'suite': 'survives' if s.get('survives_suite') else 'killed'}
        if m['id'] in ck:
            c = ck[m['id']]
            killer = next((k for k, v in c.items() if v['exit'] == 1), None)
            stopped = next((k for k, v in c.items() if v['exit'] not in (0, 1)), None)
            r['checks'] = 'violation:%s' % killer if killer else 'machinery:%s' % stopped if stopped else 'quiet'
            r['what'] = (c.get(killer or stopped) or {}).get('what', [])[:1] if (killer or stopped) else []
            r['ran'] = list(c.keys())
        rows.append(r)
    summ = {}
    for r in rows:
        k = r['file']
        s = summ.setdefault(k, {'mutants': 0, 'suite_killed': 0, 'violation': 0, 'machinery': 0, 'quiet': 0, 'unchecked': 0})
        s['mutants'] += 1
        if r['suite'] == 'killed': s['suite_killed'] += 1
        elif 'checks' not in r: s['unchecked'] += 1
        else: s[r['checks'].split(':')[0]] += 1
    json.dump({'summary': summ, 'mutants': [r for r in rows if r['suite'] == 'survives']}, open(OUT, 'w'), indent=0)
    for k, v in summ.items(): print(k, v)
    for r in rows:
        if r.get('checks') == 'quiet' or (r.get('checks') or '').startswith('machinery'):
            print(r['checks'].upper(), r['id'], r['file'], r['func'], r['line'], r['kind'], '|', r['was'][:100])


if __name__ == '__main__':
    cmd = sys.argv[1]
    jobs = int(sys.argv[sys.argv.index('-j') + 1]) if '-j' in sys.argv else 8
    only = sys.argv[sys.argv.index('--only') + 1].split(',') if '--only' in sys.argv else None
    limit = int(sys.argv[sys.argv.index('--limit') + 1]) if '--limit' in sys.argv else 0
    if cmd == 'gen': gen()
    elif cmd == 'suite': suite(jobs)
    elif cmd == 'check': check(jobs, only, limit, int(sys.argv[sys.argv.index('--cap') + 1]) if '--cap' in sys.argv else 0)
    elif cmd == 'report': report()
