"""Regression over all kept seeded changes: every seeded/<id>/patch.diff is applied to a scratch worktree of /repo and
the property's quick check (bin/check with ATHLIB_REPO=<scratch>) must exit 1 with a VIOLATION line.
usage: seedregress.py [--lanes 3] [--only C05,C12-e] [--tier quick]
Writes seeded/REGRESSION.json (id -> caught / exit / wall) and prints one line per seed."""
import sys, os, json, subprocess, time, shutil
from concurrent.futures import ThreadPoolExecutor

ROOT = '/verif/seeded'


def sh(cmd):
    p = subprocess.run(cmd, shell=True, stdout=subprocess.PIPE, stderr=subprocess.STDOUT)
    return p.returncode, p.stdout.decode('utf8', 'replace')


def one(sid, tier):
    d = os.path.join(ROOT, sid)
    meta = json.load(open(os.path.join(d, 'meta.json')))
    prop = meta['property']
    checks = [c for c, v in meta.get('checks', {}).items() if v.get('exit') == 1] or [prop]
    run = '/tmp/seedregress_%s' % sid
    sh('git -C /repo worktree remove --force %s' % run)
    sh('git -C /repo worktree add --detach %s HEAD' % run)
    rc, out = sh('git -C %s apply %s' % (run, os.path.join(d, 'patch.diff')))
    res = {'property': prop, 'applies': rc == 0, 'checks': {}}
    ev = '/tmp/seedregress_ev_%s' % sid
    try:
        if rc == 0:
            for c in checks[:1]:
                t0 = time.time()
                rc2, out2 = sh('cd /verif && ATHLIB_REPO=%s VERIF_EVIDENCE_DIR=%s bin/check %s --tier %s' % (run, ev, c, tier))
                res['checks'][c] = {'exit': rc2, 'violations': sum(1 for l in out2.splitlines() if l.startswith('VIOLATION')),
                                    'wall_s': round(time.time() - t0, 1)}
    finally:
        sh('git -C /repo worktree remove --force %s' % run)
        shutil.rmtree(ev, ignore_errors=True)
    res['caught'] = any(v['exit'] == 1 and v['violations'] > 0 for v in res['checks'].values())
    print('%-7s %s %s' % (sid, 'CAUGHT' if res['caught'] else 'MISSED', res['checks']), flush=True)
    return sid, res


def main():
    lanes, only, tier = 3, None, 'quick'
    for i, a in enumerate(sys.argv):
        if a == '--lanes': lanes = int(sys.argv[i + 1])
        if a == '--only': only = sys.argv[i + 1].split(',')
        if a == '--tier': tier = sys.argv[i + 1]
    ids = sorted(x for x in os.listdir(ROOT) if os.path.exists(os.path.join(ROOT, x, 'meta.json')))
    if only:
        ids = [x for x in ids if x in only or x.split('-')[0] in only]
    with ThreadPoolExecutor(max_workers=lanes) as ex:
        results = dict(ex.map(lambda s: one(s, tier), ids))
    out = os.path.join(ROOT, 'REGRESSION.json')
    old = json.load(open(out)) if os.path.exists(out) and only else {}
    old.update(results)
    json.dump(old, open(out, 'w'), indent=1, sort_keys=True)
    missed = [s for s, r in results.items() if not r['caught']]
    print('%d seeds, %d caught, missed: %s' % (len(results), len(results) - len(missed), missed))


main()
