"""Prepare a batch of scratch worktrees and task files for independent sub-agents.
usage: mkbatch.py seed|benign <prefix>      e.g.  mkbatch.py seed S   ->  /tmp/wt/S01 .. /tmp/wt/S19
Writes /tmp/wt/SEED_TASK.md / BENIGN_TASK.md (copies of tools/*.md), /tmp/wt/prop_Cxx.txt (the text of the
property, nothing else) and /tmp/wt/used_Cxx.txt (one line per change mechanism already used for that property,
parsed from the seeded-change tables of DESIGN.md and the kept benign notes) - nothing else from /verif reaches
an agent.
"""
import sys, os, json, re, subprocess, shutil

def main():
    kind, prefix = sys.argv[1:3]
    os.makedirs('/tmp/wt', exist_ok=True)
    for f in ('SEED_TASK.md', 'BENIGN_TASK.md'):
        shutil.copy('/verif/tools/' + f, '/tmp/wt/' + f)
    props = [json.loads(l) for l in open('/verif/properties.jsonl')]
    design = open('/verif/DESIGN.md').read()
    for p in props:
        pid = p['id']
        with open('/tmp/wt/prop_%s.txt' % pid, 'w') as f:
            f.write('Property %s: %s\n\n' % (pid, p['title']))
            f.write('Statement.\n%s\n\n' % p['statement'])
            f.write('Quantified over (%s).\n%s\n\n' % (', '.join(p['quantifier']['over']), p['quantifier']['text']))
            f.write('Why the existing tests cannot settle it.\n%s\n\n' % p['why_tests_cant'])
            a = p['anchors']
            f.write('Where it lives.\nfiles: %s\n' % ', '.join(a.get('files', [])))
            for s in a.get('state', []):
                f.write('state: %s - %s (%s)\n' % (s['name'], s['meaning'], s['where']))
            for s in a.get('mechanism', []):
                f.write('mechanism: %s (%s)\n' % (s['name'], s['where']))
            for s in a.get('observe_at', []):
                f.write('observe at: %s\n' % s)
        used = []
        for m in re.finditer(r'^\| (%s-[a-z]) \| (.*?) \|' % pid, design, re.M):
            used.append('%s: %s' % (m.group(1), m.group(2)))
        if kind == 'benign':
            used = []
            for m in re.finditer(r'^\| ([BDE]%s) \| (.*?) \|' % pid[1:], design, re.M):
                used.append('%s: %s' % (m.group(1), m.group(2)))
        with open('/tmp/wt/used_%s.txt' % pid, 'w') as f:
            f.write('\n'.join(used) + '\n')
        wt = '/tmp/wt/%s%s' % (prefix, pid[1:])
        subprocess.run('git -C /repo worktree remove --force %s' % wt, shell=True, capture_output=True)
        shutil.rmtree(wt, ignore_errors=True)
        subprocess.run('git -C /repo worktree add --detach %s HEAD' % wt, shell=True, check=True, capture_output=True)
        os.makedirs(wt + '/_seed', exist_ok=True)
        print(wt, len(used), 'used mechanisms')

main()
