#!/bin/sh
# usage: runseed.sh <NN> [extra checks]   -- confirm the change of agent S<NN> as the next free seed id of C<NN> and run its quick check
N=$1; shift
last=$(ls /verif/seeded | grep "^C$N-" | sed 's/.*-//' | sort | tail -1)
next=$(python3 -c "import sys; print(chr(ord('$last')+1) if '$last' else 'a')")
id="C$N-$next"
mkdir -p /tmp/wt/logs
echo "$id" > /tmp/wt/logs/${P:-S}$N.id
cd /verif && python3 tools/seedtest.py $id C$N /tmp/wt/${P:-S}$N "$@" > /tmp/wt/logs/$id.log 2>&1
tail -1 /tmp/wt/logs/$id.log
