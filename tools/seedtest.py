"""Confirm a seeded change and run a check against it.
usage: seedtest.py <seed-id> <property> <agent-worktree> [--checks C03,C02] [--tier quick]
 1. copies patch.diff / demo / notes from <agent-worktree>/_seed into /verif/seeded/<seed-id>/
 2. confirms in a fresh scratch worktree: suite still 92 passed, demo PASS before / FAIL after
 3. applies the patch to /repo, runs the named checks, undoes it (git checkout -- .)
 4. writes meta.json
"""
import sys, os, subprocess, shutil, json, re, time

def sh(cmd, **kw):
    p = subprocess.run(cmd, shell=True, stdout=subprocess.PIPE, stderr=subprocess.STDOUT, **kw)
    return p.returncode, p.stdout.decode('utf8', 'replace')

def main():
    sid, prop, wt = sys.argv[1:4]
    checks = [prop]
    tier = 'quick'
    for i, a in enumerate(sys.argv):
        if a == '--checks': checks = sys.argv[i + 1].split(',')
        if a == '--tier': tier = sys.argv[i + 1]
    dst = '/verif/seeded/%s' % sid
    os.makedirs(dst, exist_ok=True)
    for f in os.listdir(os.path.join(wt, '_seed')):
        if os.path.isfile(os.path.join(wt, '_seed', f)) and os.path.getsize(os.path.join(wt, '_seed', f)) < 300000 and not f.endswith('.pyc'):
            shutil.copy(os.path.join(wt, '_seed', f), dst)
    patch = os.path.join(dst, 'patch.diff')
    demo = next((f for f in os.listdir(dst) if f.startswith('demo')), None)
    scratch = '/tmp/seedconfirm_%s' % sid
    sh('git -C /repo worktree remove --force %s' % scratch)
    rc, out = sh('git -C /repo worktree add --detach %s HEAD' % scratch)
    meta = {'seed': sid, 'property': prop, 'confirmed': {}}
    # the demonstration runs the way its author ran it: from the worktree root, as _seed/<demo>
    os.makedirs(os.path.join(scratch, '_seed'), exist_ok=True)
    for f in os.listdir(dst):
        if os.path.isfile(os.path.join(dst, f)) and f not in ('meta.json',):
            shutil.copy(os.path.join(dst, f), os.path.join(scratch, '_seed', f))
    demo_cmd = 'cd %s && PYTHONPATH=%s timeout 1200 /venv/bin/python _seed/%s' % (scratch, scratch, demo)
    rc0, o0 = sh(demo_cmd)
    meta['confirmed']['demo_on_original'] = {'exit': rc0, 'tail': o0.strip().splitlines()[-1:] }
    rc, out = sh('git -C %s apply %s' % (scratch, patch))
    meta['confirmed']['patch_applies'] = rc == 0
    rc, out = sh('cd %s && PYTHONPATH=%s /venv/bin/python -m pytest -q -p no:cacheprovider tests/ 2>&1 | tail -1' % (scratch, scratch))
    meta['confirmed']['suite_with_change'] = out.strip()
    rc1, o1 = sh(demo_cmd)
    meta['confirmed']['demo_on_changed'] = {'exit': rc1, 'tail': o1.strip().splitlines()[-2:]}
    sh('git -C /repo worktree remove --force %s' % scratch)
    ok = rc0 == 0 and rc1 != 0 and '92 passed' in meta['confirmed']['suite_with_change']
    meta['confirmed']['ok'] = ok
    print('confirm:', json.dumps(meta['confirmed'])[:600])
    meta['checks'] = {}
    if ok:
        # the checks run against a scratch worktree carrying the change (ATHLIB_REPO): /repo stays untouched and
        # several changes can be examined at the same time (equivalent to git -C /repo apply / checkout -- .)
        run = '/tmp/seedrun_%s' % sid
        sh('git -C /repo worktree remove --force %s' % run)
        sh('git -C /repo worktree add --detach %s HEAD' % run)
        rc, out = sh('git -C %s apply %s' % (run, patch))
        assert rc == 0, out
        try:
            for c in checks:
                t0 = time.time()
                rc, out = sh('cd /verif && ATHLIB_REPO=%s VERIF_EVIDENCE_DIR=%s bin/check %s --tier %s' % (run, os.path.join(dst, 'evidence'), c, tier))
                viol = [l for l in out.splitlines() if l.startswith('VIOLATION')]
                what = [l.strip() for l in out.splitlines() if l.strip().startswith('what:')][:3]
                meta['checks'][c] = {'tier': tier, 'exit': rc, 'violations': len(viol), 'first': what, 'wall_s': round(time.time() - t0, 1),
                                     'summary': out.strip().splitlines()[-1][:300]}
                if rc not in (0, 1):
                    open(os.path.join(dst, 'machinery_%s.log' % c), 'w').write(out[-20000:])
                print(sid, c, 'exit', rc, 'violations', len(viol), what[:1], flush=True)
        finally:
            sh('git -C /repo worktree remove --force %s' % run)
            shutil.rmtree(os.path.join(dst, 'evidence'), ignore_errors=True)
    meta['needs'] = open(os.path.join(dst, 'notes.md')).read()[:1500] if os.path.exists(os.path.join(dst, 'notes.md')) else ''
    meta['caught'] = any(v['exit'] == 1 and v['violations'] > 0 for v in meta['checks'].values())
    with open(os.path.join(dst, 'meta.json'), 'w') as f:
        json.dump(meta, f, indent=1)
    print('CAUGHT' if meta['caught'] else 'MISSED', sid)

main()
