"""Regenerates MANIFEST.json from the table below (run after adding a check)."""
import json, os
HERE = os.path.dirname(os.path.dirname(os.path.abspath(__file__)))
TLA = "TLA+ spec + TLC model checking + trace validation of recorded executions"
CHECKS = {
 'C01': dict(text="Athlon.tla states the score in exact integer arithmetic (centi-marks, age factors x 10^4, floor/ceil after the factor, band rule, hurdles remap, ESAA row) over exactly computed threshold sequences of floor(A*d^X); TLC proves the reference sane (monotone thresholds, exact inverse, monotone adjustment, band rule). The real athlon_score is executed on every mark of the 0.01 grid for every row (float and int forms), on strided grids for every masters band, on every age 1-125 for sampled marks, with the ESAA option and on unknown pairs; outcomes are run-length encoded and TLC checks the reference at both ends of every run (with monotonicity: every grid point).",
             note="Trusted: the 40-line exact-integer threshold generator and the pinned coefficient snapshot (refdata/), TLC. Reference exact up to the 1600-point mark; scored events without WMA factor + age are a lenient region.", tech="exact-integer TLA+ reference + TLC theorems + TLC validation of run-length-encoded full-grid sweeps", ref='5/C01', engine='tlc-fn'),
 'C02': dict(text="TLC explores HighJump.tla exhaustively (2 athletes, every legal and illegal call in every state, plus constructed 3-4 athlete jump-off models) and proves the mechanism model satisfies the rule-level acceptance predicate, refusal-is-stutter and state progress; one witness log per sampled model state, TLC simulations and seeded scripts are replayed on the real object with the whole call alphabet probed at every visited state, and TLC validates every recorded step against the same predicates (monitor) and the mechanism (drift).",
             note="Bounds: exhaustive for 2 athletes / 3 heights and for constructed ties of 3-4 athletes with 1-2 jump-off heights; sampled up to 4 athletes, 4+3 heights. Trusted: TLC, CPython, the rule-level predicates of HighJump.tla. Lenient regions listed in DESIGN.md.", tech=TLA, ref='5/C02', engine='tlc-hj'),
 'C03': dict(text="TLC checks the placing clauses (countback, jump-off survivor, standard competition ranking, best = max cleared) on every terminal state of the well-formed sub-model (exhaustive for 2 athletes, constructed ties for 3-4) and on every terminal state observed on the real object in replayed/simulated/scripted competitions.",
             note="Same trusted base as C02; places are judged from the observed cards only. Known finding KF-HJ1 (wrong re-instatement) is attributed by a TLA+ predicate.", tech=TLA, ref='5/C03', engine='tlc-hj'),
 'C04': dict(text="The live regular expressions are translated to NFAs over the partition of Unicode induced by their character classes; TLC explores the complete product automaton (EventCodes.tla) and evaluates every union / disjointness clause in every product state: a decision for all strings, no length bound. A witness of every product state and transition is checked against the real re engine for all exported patterns.",
             note="Trusted: TLC, CPython re for the (regular) construct set used; the translator is not trusted (any disagreement with re on a product state or transition is a machinery failure).", tech="regex -> NFA product automaton explored exhaustively by TLC (complete state space), bound to re by state/transition witnesses", ref='5/C04', engine='tlc-lang'),
 'C05': dict(text="The reference functions of C01 and C11 are proved monotone by TLC (MC_Athlon, MC_Junior); the real functions of all six systems (combined events with and without age factor, Hungarian on the monotone side of its parabola, Tyrving, QuadKids, Sportshall, Bulgarian) are swept over their grids, run-length encoded, and TLC checks monotonicity over all adjacent pairs, integer results, the bounds (QuadKids 10-100, Bulgarian 0-150, never negative) and hand-timed <= electronic for Tyrving on the observed values.",
             note="Hungarian: monotone side and integer-ness only. Quick tier strides long grids (every run boundary between sampled marks is still an observed adjacent pair); thorough is complete for the junior systems.", tech="TLA+ monotonicity/bounds predicates + TLC theorems on the references + TLC validation of run-length-encoded sweeps", ref='5/C05', engine='tlc-fn'),
 'C06': dict(text="TLC checks the transcribed string algorithms (round-up, h:mm:ss formatting with carry) against the exact arithmetic definitions on the whole reduced-alphabet domain; the real round_up_str_num / format_seconds_as_time / parse_hms are swept over the same domain, seeded full-alphabet strings, the 0.001 s grid with all carry classes, floats with arithmetic residue and junk text, and TLC judges every observation with the same exact-integer relations (RoundUpOK, FormatFail, ParseFail, ParseTotalFail).",
             note="Reduced digit alphabet {0,5,9} / {0,1,5,9} for the exhaustive part; durations logged exactly via fractions.Fraction. Trusted: TLC, the ~20-line text tokenizer of the harness.", tech="exact-integer TLA+ reference relations + TLC domain enumeration + TLC validation of recorded observations", ref='5/C06', engine='tlc-fn'),
 'C08': dict(text="TLC checks log replay and card round trip as invariants of the model, and order independence by exploring every interleaving of every planned round (MC_HJRound); on the real object from_actions(), from_matrix(to_matrix()) and all (small) or many (large) interleavings are executed and TLC compares the observed snapshots.",
             note="Same trusted base as C02. Known finding KF-HJ2 (pass in a jump-off column) attributed by a TLA+ predicate.", tech="TLA+ spec + TLC exhaustive interleaving exploration + trace validation of recorded executions", ref='5/C08', engine='tlc-hj'),
 'C09': dict(text="NeededFail in Athlon.tla is the two-sided inverse relation; TLC proves that the exact threshold satisfies it and is the unique grid mark that does. For every row and every target -10..1500 the real athlon_performance_needed is called, the library's own score of the returned value and of the next-worse grid mark is recorded, and TLC judges every triple; the distance to the exact threshold is reported as drift only.",
             note="The relation is stated against the library's own score (as the property says); C01 binds that score to the formula.", tech="TLA+ relation + TLC theorem (uniqueness) + TLC validation of recorded triples, exhaustive over the target range", ref='5/C09', engine='tlc-fn'),
 'C11': dict(text="JuniorScoring.tla evaluates the four junior systems in exact integer arithmetic on centi-marks over the pinned published tables (Tyrving race/jump/piecewise-linear with the hand-timing increments, QuadKids clamp, Sportshall threshold table with beyond-table increments, Bulgarian per-centi table); TLC proves the references monotone, anchored (base mark = 1000 / 10 points) and the Bulgarian tables ordered and reachable. The real functions are swept over every (system, table, gender, event, age) x the 0.01 grid in every documented input form, run-length encoded, and TLC checks the reference at both ends of every run; the live tables are dumped and checked for order, reachability through the public function and normalised keys.",
             note="Published tables = pinned snapshot refdata/junior.json (pinned commit + recorded fix: corrections). Known findings: repeated thresholds in the Sportshall 800 m column.", tech="exact-integer TLA+ reference + TLC theorems + TLC validation of run-length-encoded sweeps in all input forms", ref='5/C11', engine='tlc-fn'),
 'C13': dict(text="TLC proves the reference functions AgeGroups!TF / XC (completed-years ages on 31 Aug, 31 Dec and the day, civil-date arithmetic in integers) total, monotone in the birth date and option-independent; the real calc_uka_age_group is swept over competition dates of a full leap cycle x birth-date windows around every anniversary for ages 0-110 (thorough: the complete 110-year birth axis), five option / input-form columns, recorded run-length encoded; TLC evaluates the rule text at every birth date of every run and the structural clauses on all dates.",
             note="Rule-text equality asserted for TF 1 Jan-30 Sep, XC/ROAD 1 Oct-30 Aug; one leap cycle 2021-2024. Trusted: TLC, datetime.date ordinals.", tech="exact-integer TLA+ reference function + TLC theorems on the reference + TLC validation of run-length-encoded sweeps", ref='5/C13', engine='tlc-fn'),
 'C16': dict(text="TLC explores three PlusCal sub-models at source-line granularity (lazily built table, per-call scratch on a shared grader, bounded cache at its limit) for 3 threads and every interleaving: the variants transcribing the code as it is now satisfy Linearizable / NoError, the as-it-was variants are refuted in the same run. The real functions are executed under a deterministic sys.settrace line scheduler, every schedule with <= 1 (quick) / 2 (thorough) forced pre-emptions at AST-detected visible lines, each execution in its own forked process (real first calls); TLC validates every recorded execution (result = single-threaded result per thread; published tables never partial).",
             note="Granularity = source line inside athlib; C-level atomicity under the GIL assumed; pre-emption bound 1/2. Trusted: TLC, CPython settrace.", tech="PlusCal/TLA+ interleaving models checked by TLC + controlled-scheduler executions of the real code validated by TLC", ref='5/C16', engine='tlc-sched'),
 'C19': dict(text="TLC explores SchemaCache.tla over all histories of length <= 3 (two caches, limit 2, valid/invalid keys, expect_failure both ways) and proves outcome = fresh outcome; the pre-fix model is refuted in the same run. Every TLC history is instantiated with concrete bundled files and replayed in its own process from empty caches, plus long random histories that overflow the 20-entry caches; every concrete call is first made in a fresh forked process (the oracle); TLC validates each recorded history (monitor: out = fresh; model step: cache contents).",
             note="'Fresh process' is a fork of a parent that imported athlib and never called the helpers; sockets disabled. Trusted: TLC, jsonschema.", tech=TLA, ref='5/C19', engine='tlc-schema'),
}
ENGINES = [
 {"name": "tlc-hj", "path": "harness/hjcheck.py", "serves_properties": ["C02", "C03", "C08"], "kind_free_text": "HighJump.tla (mechanism + rule level) explored by TLC; witness logs, simulations and seeded scripts replayed on the real HighJumpCompetition with every call probed at every state; traces validated by TLC (Trace_HighJump.tla, Trace_HJRound.tla)"},
 {"name": "tlc-lang", "path": "harness/rx.py", "serves_properties": ["C04", "C07", "C10", "C12", "C17"], "kind_free_text": "live regexes -> NFA data module -> TLC product automaton (EventCodes.tla); language generator for the code-based properties"},
 {"name": "tlc-schema", "path": "harness/c19.py", "serves_properties": ["C19"], "kind_free_text": "SchemaCache.tla + fork-isolated history replay + Trace_SchemaCache.tla"},
 {"name": "tlc-sched", "path": "harness/c16.py", "serves_properties": ["C16"], "kind_free_text": "LazyTables (PlusCal) interleaving model + deterministic sys.settrace line scheduler on the real code + trace validation"},
 {"name": "tlc-fn", "path": "harness/fcheck.py", "serves_properties": ["C01", "C05", "C06", "C07", "C09", "C10", "C11", "C12", "C13", "C14", "C15", "C17", "C18"], "kind_free_text": "exact-integer reference functions / relations in TLA+, domain sweeps of the real functions recorded as (run-length encoded) observations and validated by TLC"},
]
LEVEL = {'C18': 'translation_validation'}


def main():
    m = {"version": 1, "setup_cmd": "true",
         "hooks": {"guard": "ATHLIB_VERIF",
                   "enable": "no source hooks are needed: every observable the properties name is a public attribute or return value (C16 uses sys.settrace); checks import athlib from /repo's working tree (ATHLIB_REPO overrides) and set ATHLIB_VERIF=1 for uniformity",
                   "baseline_off_cmd": "cd /repo && env -u ATHLIB_VERIF /venv/bin/python -m pytest -ra -q -p no:cacheprovider --timeout=900 --continue-on-collection-errors",
                   "source_commits": [], "add_only": True},
         "engines": ENGINES, "checks": [], "not_applicable": [], "notes": "see DESIGN.md; bin/check <ID> --tier quick|thorough; known findings in known_findings.json"}
    for pid in sorted(CHECKS):
        c = CHECKS[pid]
        if not os.path.exists(os.path.join(HERE, 'harness', pid.lower() + '.py')):
            continue
        m['checks'].append({"property_id": pid, "quick_cmd": "bin/check %s --tier quick" % pid,
                            "thorough_cmd": "bin/check %s --tier thorough" % pid,
                            "evidence_file": "evidence/%s.json" % pid,
                            "replay_cmd_template": "bin/check %s --replay {path}" % pid, "engine": c['engine'],
                            "level_claimed": {"category": LEVEL.get(pid, 'model_checking'), "text": c['text'], "design_ref": c['ref']},
                            "level_note": c['note'], "technique": c['tech']})
    done = {c['property_id'] for c in m['checks']}
    for i in range(1, 20):
        pid = 'C%02d' % i
        if pid not in done:
            m['not_applicable'].append({"property_id": pid, "reason": "check still under construction in this round (the framework is built property by property); DESIGN.md section 5 gives the planned TLA+ decision procedure"})
    with open(os.path.join(HERE, 'MANIFEST.json'), 'w') as f:
        json.dump(m, f, indent=1)
    import jsonschema
    jsonschema.validate(m, json.load(open('/root/.vp/MANIFEST.schema.json')))
    print('MANIFEST.json: %d checks, %d not yet claimed' % (len(m['checks']), len(m['not_applicable'])))


if __name__ == '__main__':
    main()
