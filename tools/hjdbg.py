"""Debug helper: run an MC_HighJump config and print the counterexample compactly."""
import sys, re, subprocess, os, time
cfg = sys.argv[1]
mod = sys.argv[2] if len(sys.argv) > 2 else 'MC_HighJump'
t0 = time.time()
cmd = ['java','-XX:+UseParallelGC','-Xmx12g','-Xss64m','-cp','/opt/veriftools/tla/tla2tools.jar:/opt/veriftools/tla/CommunityModules-deps.jar',
       'tlc2.TLC','-metadir','/tmp/t1/m-%d' % os.getpid(),'-noGenerateSpecTE','-workers','16','-config',cfg, mod+'.tla'] + sys.argv[3:]
out = subprocess.run(cmd, stdout=subprocess.PIPE, stderr=subprocess.STDOUT, cwd='/verif/specs').stdout.decode()
subprocess.run(['rm','-rf','/tmp/t1/m-%d' % os.getpid()])
states = re.split(r'\nState \d+: ', out)
print(states[0][-1500:] if len(states) == 1 else '\n'.join(l for l in states[0].splitlines() if l.startswith('Error')))
for s in states[1:]:
    call = re.search(r'/\\ call = \[(.*?)\]', s, re.S)
    bad = re.search(r'/\\ bad = (\{.*?\})', s, re.S)
    st = re.search(r'state \|-> "(\w+)"', s)
    hs = re.search(r'heights \|-> (<<.*?>>)', s, re.S)
    cards = re.findall(r'(\w) \|->\s*\[ card \|-> (.*?),\s*best \|-> (\d+),\s*bidx \|-> (\d+),\s*elim \|-> (\w+),\s*dism \|-> (\w+),\s*lim \|-> (\d),\s*cf \|-> (\d),\s*p \|-> (\d)', s, re.S)
    c = call.group(1) if call else ''
    c = re.sub(r'\s+', ' ', c)
    print('%-45s state=%-9s H=%s bad=%s' % (c, st.group(1) if st else '', re.sub(r'\s+','',hs.group(1)) if hs else '', re.sub(r'\s+',' ',bad.group(1)) if bad else ''))
    for b, card, best, bidx, elim, dism, lim, cf, p in cards:
        card = re.sub(r'[\s"]', '', card).replace('<<<<','[').replace('>>>>',']').replace('>>,<<','|').replace('<<','').replace('>>','').replace(',','')
        print('      %s %-22s best=%s/%s elim=%s dism=%s lim=%s cf=%s p=%s' % (b, card, best, bidx, elim[0], dism[0], lim, cf, p))
m = re.findall(r'(\d+ states generated.*)', out)
print(m[-1] if m else '')
print('wall %.1fs' % (time.time()-t0))
